import Mdns.Props.C03
import Mdns.Lemmas.ClientSchedule
/-
  C04  Everything advertised for a browsed type is found and resolved.

  Model: `Mdns/Model/Client.lean` (exact on scripted-responder histories, compared with the
  real daemon on every run).  Proved here: the follow-up contract (PTR without SRV / SRV
  without address ⇒ `Resolve(inst, 1)` after 500 ms, three tries 500 ms apart, each asking
  exactly the missing records) and the resolution step (an update that touches an instance
  whose records are complete and usable emits `ServiceResolved` in that very step).  The
  completeness INVARIANT over histories is stated (`ResolvedComplete_full`) and refuted on a
  concrete history: only NEW (or revived) records count as updates in `handle_response`, a
  record that is refreshed while in its last second does not.
-/
namespace Mdns.Props.C04
open Mdns Mdns.Rec Mdns.Cache Mdns.Client

/-! ### follow-up queries -/

theorem addPending_mono (s : State) (now : Nat) (j : BList) :
    (∀ r ∈ s.reruns, r ∈ (addPending s now j).reruns) ∧ (∀ t ∈ s.timers, t ∈ (addPending s now j).timers) ∧
    (∀ p ∈ s.pending, p ∈ (addPending s now j).pending) := by
  unfold addPending
  split
  · exact ⟨fun _ h => h, fun _ h => h, fun _ h => h⟩
  · refine ⟨fun r h => ?_, fun t h => ?_, fun p h => ?_⟩
    · simp [addRerun, h]
    · simp [addRerun, h]
    · simp [h]

theorem addPendings_mono (now : Nat) : ∀ (l : List BList) (s : State),
    (∀ r ∈ s.reruns, r ∈ (addPendings s now l).reruns) ∧ (∀ t ∈ s.timers, t ∈ (addPendings s now l).timers) ∧
    (∀ p ∈ s.pending, p ∈ (addPendings s now l).pending)
  | [], _ => ⟨fun _ h => h, fun _ h => h, fun _ h => h⟩
  | j :: rest, s => by
    have h1 := addPending_mono s now j
    have h2 := addPendings_mono now rest (addPending s now j)
    simp only [addPendings]
    exact ⟨fun r h => h2.1 r (h1.1 r h), fun t h => h2.2.1 t (h1.2.1 t h), fun p h => h2.2.2 p (h1.2.2 p h)⟩

/-- `add_pending_resolve` for an instance that is not pending yet: the follow-up is queued
    500 ms ahead, a timer is armed for it, and the instance is marked pending -/
theorem addPending_new (s : State) (now : Nat) (i : BList) (h : i ∉ s.pending) :
    (⟨now + 500, .resolve i 1⟩ : Rerun) ∈ (addPending s now i).reruns ∧ (now + 500) ∈ (addPending s now i).timers ∧
    i ∈ (addPending s now i).pending := by
  unfold addPending
  have : ¬ (s.pending.contains i = true) := by simpa using h
  rw [if_neg this]
  simp [addRerun, RESOLVE_WAIT]

theorem addPendings_new (now : Nat) (i : BList) : ∀ (l : List BList) (s : State), i ∈ l → i ∉ s.pending →
    (⟨now + 500, .resolve i 1⟩ : Rerun) ∈ (addPendings s now l).reruns ∧ (now + 500) ∈ (addPendings s now l).timers ∧
    i ∈ (addPendings s now l).pending
  | [], _, h, _ => by cases h
  | j :: rest, s, h, hn => by
    simp only [addPendings]
    by_cases hj : j = i
    · subst hj
      have h1 := addPending_new s now j hn
      have h2 := addPendings_mono now rest (addPending s now j)
      exact ⟨h2.1 _ h1.1, h2.2.1 _ h1.2.1, h2.2.2 _ h1.2.2⟩
    · have hin : i ∈ rest := by
        rcases List.mem_cons.mp h with h | h
        · exact absurd h.symm hj
        · exact h
      apply addPendings_new now i rest _ hin
      unfold addPending
      split
      · exact hn
      · simp only [List.mem_append, List.mem_singleton, not_or]
        exact ⟨hn, fun e => hj e.symm⟩

theorem mem_visits_of (s : State) (now : Nat) (u : List BList) (ty : BList) (ch : Nat) (es : List Entry) (e : Entry)
    (inst : BList) (hu : inst ∈ u) (hq : s.queriers.lookup ty = some ch) (hes : (ty, es) ∈ s.cache.ptr) (he : e ∈ es)
    (ha : aliasOf e = some inst) (huse : usable now e = true) : (ty, ch, inst) ∈ visits s now u := by
  simp only [visits, List.mem_flatMap]
  refine ⟨(ty, es), hes, ?_⟩
  simp only [hq, List.mem_map, List.mem_filter, List.mem_filterMap]
  exact ⟨inst, ⟨⟨e, ⟨he, huse⟩, ha⟩, by simpa using hu⟩, rfl⟩

/-- **followup_contract, part 1.**  `resolve_updated_instances` on an update that touches `inst`:
    if a usable PTR of a type that is browsed and not cache-only (`browse`, not `browse_cache`:
    a cache-only browse sends no query, so it queues no follow-up - repair of D23b) points to
    `inst` but it cannot be resolved from the
    cache (no usable SRV - "only the PTR arrived" - or no usable address of its host) and no
    follow-up is pending for it, then `Resolve(inst, 1)` is queued for `now + 500` with a timer
    (so the daemon wakes for it, C12), and `inst` is marked pending. -/
theorem followup_queued (s : State) (now : Nat) (u : List BList) (ty : BList) (ch : Nat) (es : List Entry) (e : Entry)
    (inst : BList) (hu : inst ∈ u) (hq : s.queriers.lookup ty = some ch) (hes : (ty, es) ∈ s.cache.ptr) (he : e ∈ es)
    (ha : aliasOf e = some inst) (huse : usable now e = true) (hact : ty ∉ s.cacheOnly)
    (hinv : (resolveFromCache s.cache now ty inst).valid = false) (hnp : inst ∉ s.pending) :
    (⟨now + 500, .resolve inst 1⟩ : Rerun) ∈ (resolveUpdated s now u).1.reruns ∧
    (now + 500) ∈ (resolveUpdated s now u).1.timers ∧ inst ∈ (resolveUpdated s now u).1.pending := by
  have hv := mem_visits_of s now u ty ch es e inst hu hq hes he ha huse
  have hne : u.isEmpty = false := by
    cases u with
    | nil => cases hu
    | cons _ _ => rfl
  unfold resolveUpdated
  simp only [hne, Bool.false_eq_true, if_false]
  apply addPendings_new
  · simp only [List.mem_eraseDups, List.mem_map, List.mem_filter]
    exact ⟨(ty, ch, inst), ⟨⟨hv, by simp [visitValid, hinv]⟩, by simpa using hact⟩, rfl⟩
  · simp only [markResolved, List.mem_filter, not_and]
    intro h
    exact absurd h hnp

/-- what the follow-up asks: `ANY inst` when there is no SRV entry for the instance -/
theorem asks_any (c : Cache) (inst : BList) (hv : validInstanceName inst = true) (hs : c.srv.get inst = none) :
    queryUnresolved c inst = some [(inst, 255)] := by
  simp [queryUnresolved, hv, hs]

/-- ... `A` and `AAAA` of the SRV target when the SRV is there but no address entry for its host -/
theorem asks_addresses (c : Cache) (inst : BList) (srvs : List Entry) (h : BList)
    (hv : validInstanceName inst = true) (hs : c.srv.get inst = some srvs)
    (hh : (srvs.filterMap hostOf).find? (fun h => (c.addr.get (lower h)).isNone) = some h) :
    queryUnresolved c inst = some [(h, 1), (h, 28)] := by
  simp [queryUnresolved, hv, hs, hh]

/-- ... and nothing once SRV and address entries are there -/
theorem asks_nothing (c : Cache) (inst : BList) (srvs : List Entry) (hs : c.srv.get inst = some srvs)
    (hh : ∀ h ∈ srvs.filterMap hostOf, (c.addr.get (lower h)).isSome = true) : queryUnresolved c inst = none := by
  unfold queryUnresolved
  split
  · rfl
  · simp only [hs, Option.map_eq_none_iff, List.find?_eq_none]
    intro h hm
    have := hh h hm
    cases hg : c.addr.get (lower h) <;> simp_all

/-- **followup_contract, part 2.**  Executing `Resolve(inst, k)`: when something is missing
    (`queryUnresolved = some qs`) exactly that query goes out, and try `k + 1` is queued 500 ms
    ahead iff `k < 3`; when nothing is missing the command does nothing. -/
theorem followup_step (s : State) (now : Nat) (inst : BList) (k : Nat) :
    (∀ qs, queryUnresolved s.cache inst = some qs →
      (execResolveInst s now inst k).2 = [sendQuery s.cache now qs] ∧
      (execResolveInst s now inst k).1.reruns =
        (if k < 3 then s.reruns ++ [⟨now + 500, .resolve inst (k + 1)⟩] else s.reruns)) ∧
    (queryUnresolved s.cache inst = none → execResolveInst s now inst k = (s, [])) := by
  refine ⟨?_, ?_⟩
  · intro qs h
    unfold execResolveInst
    simp only [h, MAX_TRY, RESOLVE_WAIT]
    by_cases hk : k < 3 <;> simp [hk, addRerun]
  · intro h
    unfold execResolveInst
    simp only [h]

/-! ### the follow-ups go out when an iteration runs at their due time -/

/-- **followup_contract, part 3: a due follow-up is run.**  `Resolve(inst, k)` is queued for
    `n ≤ now` (with its timer - `followup_queued`; the daemon asks to be woken no later than `n`:
    `Props.C12.wake_never_late_run`).  The iteration at `now` - whatever it reads, whatever
    commands it processes - runs it on the cache as it is when the re-run phase starts: if
    something is still missing there, exactly that query goes out in this iteration and, while
    `k < 3`, try `k + 1` is queued for `now + 500`. -/
theorem followup_runs_when_due (s : State) (now : Nat) (pkts : List Packet) (cmds : List Command) (inst : BList) (k n : Nat)
    (hr : (⟨n, .resolve inst k⟩ : Rerun) ∈ s.reruns) (hdue : n ≤ now) (qs : List (BList × Nat))
    (hqs : queryUnresolved (runCommands (preCommands s now pkts) now cmds).1.cache inst = some qs) :
    sendQuery (runCommands (preCommands s now pkts) now cmds).1.cache now qs ∈ (iter s now pkts cmds).2 ∧
    (k < 3 → (⟨now + 500, .resolve inst (k + 1)⟩ : Rerun) ∈ (iter s now pkts cmds).1.reruns) :=
  followup_due_iter s now pkts cmds inst k n hr hdue qs hqs

/-- an `ANY` question for the instance among the outputs -/
def asksAny (inst : BList) (outs : List Out) : Prop := ∃ known, Out.query [(inst, 255)] known ∈ outs

/-- **The three follow-ups at +500, +1000, +1500 ms.**  Only the PTR of `inst` has arrived (no SRV
    entry for it) and `Resolve(inst, 1)` is queued for `n` (= arrival + 500 ms, `followup_queued`).
    If nothing else arrives and iterations run at `n`, `n + 500` and `n + 1000` (the wake-ups the
    daemon asks for), each of them sends the question `ANY inst`. -/
theorem followups_at_500_1000_1500 (s : State) (inst : BList) (n : Nat) (hv : validInstanceName inst = true)
    (hsrv : s.cache.srv.get inst = none) (hr : (⟨n, .resolve inst 1⟩ : Rerun) ∈ s.reruns) :
    asksAny inst (iter s n [] []).2 ∧
    asksAny inst (iter (iter s n [] []).1 (n + 500) [] []).2 ∧
    asksAny inst (iter (iter (iter s n [] []).1 (n + 500) [] []).1 (n + 1000) [] []).2 := by
  have step : ∀ (x : State) (now k m : Nat), x.cache.srv.get inst = none → (⟨m, .resolve inst k⟩ : Rerun) ∈ x.reruns →
      m ≤ now → asksAny inst (iter x now [] []).2 ∧ (iter x now [] []).1.cache.srv.get inst = none ∧
        (k < 3 → (⟨now + 500, .resolve inst (k + 1)⟩ : Rerun) ∈ (iter x now [] []).1.reruns) := by
    intro x now k m hx hm hle
    obtain ⟨hq1, hq2⟩ := srv_none_quiet x now inst hx
    have hqs := asks_any (runCommands (preCommands x now []) now []).1.cache inst hv hq2
    obtain ⟨h1, h2⟩ := followup_due_iter x now [] [] inst k m hm hle _ hqs
    exact ⟨⟨_, h1⟩, hq1, h2⟩
  obtain ⟨a1, c1, r1⟩ := step s n 1 n hsrv hr (Nat.le_refl _)
  obtain ⟨a2, c2, r2⟩ := step _ (n + 500) 2 (n + 500) c1 (r1 (by omega)) (Nat.le_refl _)
  obtain ⟨a3, _, _⟩ := step _ (n + 1000) 3 (n + 500 + 500) c2 (r2 (by omega)) (by omega)
  exact ⟨a1, a2, a3⟩

/-! ### the resolution step -/

/-- **Resolved as soon as complete.**  `resolve_updated_instances` on an update that touches
    `inst`: if a usable PTR of the type browsed on `ch` points to `inst` and the cache resolves
    it validly (usable SRV with a host that has a usable address), `ServiceResolved` goes to
    `ch` in this very step and `inst` is recorded as resolved. -/
theorem resolved_when_complete (s : State) (now : Nat) (u : List BList) (ty : BList) (ch : Nat) (es : List Entry)
    (e : Entry) (inst : BList) (hu : inst ∈ u) (hq : s.queriers.lookup ty = some ch) (hes : (ty, es) ∈ s.cache.ptr)
    (he : e ∈ es) (ha : aliasOf e = some inst) (huse : usable now e = true)
    (hv : (resolveFromCache s.cache now ty inst).valid = true) :
    Out.event ch (.resolved (resolveFromCache s.cache now ty inst)) ∈ (resolveUpdated s now u).2 := by
  have hvis := mem_visits_of s now u ty ch es e inst hu hq hes he ha huse
  have hne : u.isEmpty = false := by
    cases u with
    | nil => cases hu
    | cons _ _ => rfl
  unfold resolveUpdated
  simp only [hne, Bool.false_eq_true, if_false, List.mem_append, List.mem_map, List.mem_filter]
  left
  exact ⟨(ty, ch, inst), ⟨hvis, by simp [visitValid, hv]⟩, rfl⟩

/-- which updates touch an instance: a NEW PTR pointing to it, a NEW SRV or TXT of it, a NEW
    address whose owner is (in any letter case) the target of its first SRV -/
theorem touched_by (c : Cache) (changes : List (Nat × BList)) (inst : BList) :
    ((12, inst) ∈ changes ∨ (33, inst) ∈ changes ∨ (16, inst) ∈ changes ∨
      ∃ h, ((1, h) ∈ changes ∨ (28, h) ∈ changes) ∧ inst ∈ instancesOnHost c h) →
    inst ∈ updatedInstances c changes := by
  intro h
  simp only [updatedInstances, List.mem_flatMap]
  rcases h with h | h | h | ⟨host, h | h, hi⟩
  · exact ⟨(12, inst), h, by simp⟩
  · exact ⟨(33, inst), h, by simp⟩
  · exact ⟨(16, inst), h, by simp⟩
  · exact ⟨(1, host), h, by simp [hi]⟩
  · exact ⟨(28, host), h, by simp [hi]⟩

/-! ### revived records are updates (repair of the D24 family) -/

/-- the `is_new` flag `add_or_update` returns, as a function of the entries `es` cached under
    the name of the incoming record -/
def newFlag (inc : Record) (now : Nat) (es : List Entry) : Bool :=
  !hasMatch inc (flushList inc now es) ||
    (((flushList inc now es)[upsertIdx inc (flushList inc now es)]?).map fun old =>
      decide (old.record.ttl ≤ 1 ∧ inc.ttl > 1)).getD false

theorem addOrUpdate_flag (c : Cache) (srcName : BList) (srcIdx : Nat) (inc : Record) (now : Nat) (forUs : Bool) (s : Slot)
    (hs : slotOf inc.ty = some s) (x : Entry × Bool) (hx : (addOrUpdate c srcName srcIdx inc now forUs).result = some x) :
    x.2 = newFlag inc now ((((noteSubtype c inc forUs).table s).get (keyOf s inc.name)).getD []) := by
  unfold addOrUpdate at hx
  simp only [hs] at hx
  split at hx
  · cases hx
  · simp only [Option.map_eq_some_iff] at hx
    obtain ⟨e, _, rfl⟩ := hx
    rfl

/-- **A record that was withdrawn and is announced again is reported as new**: if every cached
    copy matching the incoming record is a withdrawn one (TTL ≤ 1: a goodbye is kept with TTL 1
    for one more second) and the incoming TTL is above 1, `add_or_update` answers `is_new`, so
    `handle_response` treats it as an update (`touched_by`) and re-resolves the instance. -/
theorem revived_is_new (inc : Record) (now : Nat) (es : List Entry) (hinc : inc.ttl > 1)
    (hrev : ∀ e ∈ es, e.record.matchesRec inc = true → e.record.ttl ≤ 1) : newFlag inc now es = true := by
  unfold newFlag
  cases hm : hasMatch inc (flushList inc now es) with
  | false => rfl
  | true =>
    obtain ⟨pre, e, post, h1, _, h3, _, h5⟩ := resetFirst_spec inc _ hm
    have hidx : upsertIdx inc (flushList inc now es) = pre.length := by simp [upsertIdx, hm, h5]
    have hget : (flushList inc now es)[pre.length]? = some e := by
      rw [h1]; simp
    have hmem : e ∈ flushList inc now es := by rw [h1]; simp
    obtain ⟨e0, he0, lo⟩ := listLow_flushList inc now es e hmem
    have hm0 : e0.record.matchesRec inc = true := by
      rw [matchesRec_iff] at h3 ⊢
      obtain ⟨l1, l2, l3, l4, l5, _, _, _⟩ := lo
      exact ⟨l1 ▸ h3.1, l2 ▸ h3.2.1, l3 ▸ h3.2.2.1, l4 ▸ h3.2.2.2.1, l5 ▸ h3.2.2.2.2⟩
    have httl : e.record.ttl ≤ 1 := by
      have := hrev e0 he0 hm0
      rw [lo.2.2.2.2.2.2.1]
      exact this
    simp [hidx, hget, httl, hinc]

/-! ### the completeness invariant: stated, and refuted as it stands -/

/-- the records of `inst` are complete and usable in the cache for the browse of `ty` -/
def Complete (s : State) (now : Nat) (ty inst : BList) : Prop :=
  (s.queriers.lookup ty).isSome = true ∧
  (s.cache.ptr.any fun p => p.1 == ty && p.2.any fun e => aliasOf e == some inst && usable now e) = true ∧
  (resolveFromCache s.cache now ty inst).valid = true

/-- C04 at full strength on the model: at every iteration boundary of every history, an
    instance whose records are complete and usable has been reported resolved. -/
def ResolvedComplete_full : Prop :=
  ∀ (t0 : Nat) (intfs : List Intf) (h : List (Nat × List Packet × List Command)) (now : Nat) (ty inst : BList),
    (h.getLast?.map (·.1)) = some now →
    Complete (run (init t0 intfs) h).1 now ty inst → inst ∈ (run (init t0 intfs) h).1.resolved

open C03 in
/-- regression (repair of the D24 family): the address arrives first as a goodbye (TTL 0,
    stored as 1) and is announced again within the second.  `add_or_update` now reports such a
    revived record as new, so the instance is resolved in that step. -/
def revivedHistory : List (Nat × List Packet × List Command) :=
  [(1000, [], [.browse ty 1 false]),
   (1500, [{ announce with msg := { announce.msg with additionals :=
       [wrec inst 33 120 (.srv 0 0 80 host), wrec inst 16 120 (.txt [1, 0x61]), wrec host 1 1 (.a [10, 0, 0, 1])] } }], []),
   (1600, [{ announce with msg := { announce.msg with answers := [wrec host 1 120 (.a [10, 0, 0, 1])], additionals := [] } }], [])]

open C03 in
example :
    ((run (init 1000 [eth0]) revivedHistory).2.filter
        fun o => match o.2 with | .event _ (.resolved _) => true | _ => false) =
      [(1600, .event 1 (.resolved theEvent))] ∧
    ((run (init 1000 [eth0]) revivedHistory).1.resolved.contains inst) = true := by decide

open C03 in
/-- The address is cached with a short TTL (2 s); PTR, SRV and TXT arrive while it is in its
    last second (`expires_soon`: the instance cannot be resolved yet), and 100 ms later the
    address is announced again.  The second copy only refreshes the cached entry (its old TTL
    was 2, not a withdrawn record), it is not an update for `handle_response`, and nothing
    re-resolves the instance although PTR, SRV, TXT and address are all usable from then on. -/
def gapHistory : List (Nat × List Packet × List Command) :=
  [(1000, [], [.browse ty 1 false]),
   (1500, [{ announce with msg := { announce.msg with answers := [wrec host 1 2 (.a [10, 0, 0, 1])], additionals := [] } }], []),
   (2600, [{ announce with msg := { announce.msg with additionals :=
       [wrec inst 33 120 (.srv 0 0 80 host), wrec inst 16 120 (.txt [1, 0x61])] } }], []),
   (2700, [{ announce with msg := { announce.msg with answers := [wrec host 1 120 (.a [10, 0, 0, 1])], additionals := [] } }], []),
   (9000, [], [])]

open C03 in
theorem resolvedComplete_witness :
    (resolveFromCache (run (init 1000 [eth0]) gapHistory).1.cache 9000 ty inst).valid = true ∧
    ((run (init 1000 [eth0]) gapHistory).1.resolved.contains inst) = false := by decide

/-- `ResolvedComplete_full` does not hold of the model (hence, by the correspondence, of the
    code): witness `gapHistory` (a record refreshed in its last second; the same history
    reproduces on the real daemon, `corpus-candidates/C04/addr_refreshed_in_last_second.ops`) -/
theorem resolvedComplete_full_false : ¬ ResolvedComplete_full := by
  intro h
  have hw := resolvedComplete_witness
  have := h 1000 [C03.eth0] gapHistory 9000 C03.ty C03.inst (by decide) ⟨by decide, by decide, hw.1⟩
  have hc : ((run (init 1000 [C03.eth0]) gapHistory).1.resolved.contains C03.inst) = true := by simpa using this
  rw [hw.2] at hc
  cases hc

/-- **ResolvedComplete, partial**: what holds is the step version - whenever an update touches
    the instance (`touched_by`) while its records are complete, it is resolved in that step.
    Missing for the invariant: re-delivered (not new) records do not count as updates. -/
theorem resolvedComplete_partial (s : State) (now : Nat) (u : List BList) (ty inst : BList) (hu : inst ∈ u)
    (hc : Complete s now ty inst) :
    ∃ ch, Out.event ch (.resolved (resolveFromCache s.cache now ty inst)) ∈ (resolveUpdated s now u).2 := by
  obtain ⟨hq, hp, hv⟩ := hc
  obtain ⟨ch, hq⟩ := Option.isSome_iff_exists.mp hq
  simp only [List.any_eq_true, Bool.and_eq_true, beq_iff_eq] at hp
  obtain ⟨p, hp, hk, e, he, ha, huse⟩ := hp
  obtain ⟨k, es⟩ := p
  simp only at hk
  subst hk
  exact ⟨ch, resolved_when_complete s now u k ch es e inst hu hq hp he ha huse hv⟩

/-! ### non-vacuity: only the PTR arrives; the daemon asks ANY at +500, +1000, +1500 and then stops -/

def inst5 : BList := [0x69, 0x2e, 0x5f, 0x74, 0x2e, 0x5f, 0x75, 0x2e, 0x6c, 0x2e]   -- "i._t._u.l."
def ty5 : BList := [0x5f, 0x74, 0x2e, 0x5f, 0x75, 0x2e, 0x6c, 0x2e]                 -- "_t._u.l."

def ptrOnly : Packet :=
  { ifIdx := 2, v4 := true,
    msg := { id := 0, flags := 0x8400, questions := [], answers := [C03.wrec ty5 12 120 (.ptr inst5)],
             authorities := [], additionals := [] } }

example :
    ((run (init 1000 [C03.eth0]) [(1000, [], [.browse ty5 1 false]), (1200, [ptrOnly], []), (1700, [], []), (2200, [], []),
        (2700, [], []), (3200, [], [])]).2.filterMap
        fun o => match o.2 with | .query [(n, 255)] _ => some (o.1, n) | _ => none) =
      [(1700, inst5), (2200, inst5), (2700, inst5)] := by decide

end Mdns.Props.C04
