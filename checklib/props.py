"""Per-property configuration of ./check: theorem modules, non-triviality rules,
shrinkers and mutators for the search after a broken correspondence."""
import random
import re

shrinkers = {}
mutators = {}


# ------------------------------------------------------------------------------ C16

def _props_of(toks, i):
    """parse `n (key valopt)*` starting at toks[i]; returns (list of token-lists, next index)"""
    n = int(toks[i])
    i += 1
    items = []
    for _ in range(n):
        if toks[i + 1] == "none":
            items.append(toks[i:i + 2])
            i += 2
        else:
            items.append(toks[i:i + 3])
            i += 3
    return items, i


def _shrink_txt_props(op):
    toks = op.split(" ")
    start = 2 if toks[0] == "txt-trip" else 1
    try:
        items, end = _props_of(toks, start)
    except (ValueError, IndexError):
        return
    for k in range(len(items)):
        rest = items[:k] + items[k + 1:]
        yield " ".join(toks[:start] + [str(len(rest))] + [t for it in rest for t in it] + toks[end:])


shrinkers["txt-trip"] = _shrink_txt_props
shrinkers["txt-get"] = _shrink_txt_props


def _mutate_hex_op(op, seed):
    """byte-level neighbours of every hex token of an op"""
    rnd = random.Random(seed)
    toks = op.split(" ")
    idx = [i for i, t in enumerate(toks) if i > 0 and re.fullmatch(r"([0-9a-f]{2})+", t)]
    if not idx:
        return
    while True:
        i = rnd.choice(idx)
        b = bytearray.fromhex(toks[i])
        k = rnd.randrange(len(b))
        c = rnd.randrange(4)
        if c == 0:
            b[k] = rnd.choice([0, 1, 0x3d, 0x41, 0x61, 0x7f, 0x80, 0xff, (b[k] + 1) % 256, (b[k] - 1) % 256])
        elif c == 1 and len(b) > 1:
            del b[k]
        elif c == 2:
            b.insert(k, rnd.choice([0, 0x3d, 0x61, 0x41, 0xff]))
        else:
            b[k] ^= 1 << rnd.randrange(8)
        t = b.hex() if b else "-"
        yield " ".join(toks[:i] + [t] + toks[i + 1:])


for _k in ("txt-trip", "txt-decode", "txt-decode-unique", "txt-get"):
    mutators[_k] = _mutate_hex_op


def _c16_nontrivial(r):
    op = r["op"].split(" ")
    if op[0] == "txt-trip":
        return r["impl"].startswith("ok") and op[2] != "0"
    if op[0] in ("txt-decode", "txt-decode-unique"):
        return r["impl"].startswith("ok") and not r["impl"].startswith("ok 0")
    if op[0] == "txt-get":
        return r["impl"].startswith("some")
    return False


def _shrink_sim(op):
    head, _, script = op.partition(" daemon ")
    cmds = ("daemon " + script).split(" ; ")
    for k in range(len(cmds) - 1, 0, -1):
        if cmds[k].startswith(("daemon", "link")):
            continue
        yield head + " " + " ; ".join(cmds[:k] + cmds[k + 1:])


shrinkers["sim"] = _shrink_sim


def _sim_nontrivial(r):
    # at least one packet sent and one client event observed
    return " tx " in r["impl"] and " ev " in r["impl"]


def _sim_extra(recs):
    its = sum(r["impl"].count("it ") for r in recs)
    tx = sum(r["impl"].count(" tx ") for r in recs)
    ev = sum(r["impl"].count(" ev ") for r in recs)
    nomodel = sum(1 for r in recs if r["model"] == "nomodel")
    return dict(loop_iterations_observed=its, packets_observed=tx, client_events_observed=ev,
                histories_compared_with_model=len(recs) - nomodel, histories_monitor_only=nomodel)


def _c01_nontrivial(r):
    # the decoder got past the header: a message with at least one entry, or an error on
    # a datagram that has at least a full header
    if r["impl"].startswith("ok"):
        t = r["impl"].split(" ")
        return len(t) > 8
    return len(r["op"].split(" ")[1]) >= 24 + 2


def _c01_extra(recs):
    peak = us = 0
    big = 0
    for r in recs:
        m = re.search(r"peak=(\d+) us=(\d+) len=(\d+)", r.get("meas", ""))
        if m:
            peak = max(peak, int(m.group(1)))
            us = max(us, int(m.group(2)))
            big += int(m.group(3)) >= 1000
    return dict(max_peak_alloc_bytes=peak, max_decode_micros=us, datagrams_of_1000_bytes_or_more=big)


mutators["decode"] = _mutate_hex_op


# ------------------------------------------------------------------------ C11 / C10

_LIFE_STEPS = {"exp": 1, "soon": 1, "due": 1, "half": 1, "refresh": 1, "upd": 1, "nomore": 0, "reset": 2,
               "updttl": 1, "remttl": 1, "sooner": 1, "setexp": 1, "view": 0}
_CACHE_CMDS = ("add", "evicta", "evicts", "known", "refptr", "refst", "refhosts", "refres", "rmtype", "verify", "dump")


def _life_steps(op):
    """(head tokens, [step token lists]) of a rec-life op"""
    toks = op.split(" ")
    steps, i = [], 4
    while i < len(toks):
        n = _LIFE_STEPS.get(toks[i])
        if n is None:
            return toks[:3], None
        steps.append(toks[i:i + 1 + n])
        i += 1 + n
    return toks[:3], steps


def _cache_cmds(op):
    """the commands of a cache-seq op as token lists (command words are not hex, not numbers)"""
    toks = op.split(" ")
    cmds = []
    for t in toks[2:]:
        if t in _CACHE_CMDS:
            cmds.append([t])
        elif cmds:
            cmds[-1].append(t)
    return cmds


def _shrink_life(op):
    head, steps = _life_steps(op)
    if not steps:
        return
    for k in range(len(steps)):
        rest = steps[:k] + steps[k + 1:]
        yield " ".join(head + [str(len(rest))] + [t for st in rest for t in st])


def _shrink_cache(op):
    cmds = _cache_cmds(op)
    for k in range(len(cmds)):
        rest = cmds[:k] + cmds[k + 1:]
        yield " ".join(["cache-seq", str(len(rest))] + [t for c in rest for t in c])


shrinkers["rec-life"] = _shrink_life
shrinkers["cache-seq"] = _shrink_cache


def _mutate_numbers(op, seed):
    """neighbours of the numeric fields (times, TTLs) of an op"""
    rnd = random.Random(seed)
    toks = op.split(" ")
    idx = [i for i, t in enumerate(toks) if i > 0 and re.fullmatch(r"[0-9]+", t) and (len(t) % 2 == 1 or int(t) > 99)]
    if not idx:
        idx = [i for i, t in enumerate(toks) if i > 0 and re.fullmatch(r"[0-9]+", t)]
    if not idx:
        return
    while True:
        i = rnd.choice(idx)
        v = int(toks[i])
        v2 = max(0, rnd.choice([v - 1, v + 1, v - 1000, v + 1000, v // 2, v * 2, v + 500]))
        yield " ".join(toks[:i] + [str(v2)] + toks[i + 1:])


for _k in ("rec-life", "suppress", "cache-seq"):
    mutators[_k] = _mutate_numbers
mutators["suppress-msg"] = _mutate_hex_op


def _life_crossed_mark(r):
    """a rec-life case in which at least one re-query was triggered"""
    head, steps = _life_steps(r["op"])
    if not steps:
        return False
    ans = r["impl"].split(" ")
    i = 0
    for st in steps:
        k = st[0]
        if i >= len(ans):
            return False
        if k == "refresh":
            if ans[i] == "1":
                return True
            i += 2
        elif k == "upd":
            if ans[i] == "some":
                return True
            i += 1
        elif k in ("updttl", "remttl"):
            i += 1 if ans[i] == "panic" else 2
        elif k in ("reset", "view"):
            i += 4
        else:
            i += 1
    return False


def _cache_chunks(r):
    cmds = _cache_cmds(r["op"])
    chunks = [c.split(" ") for c in r["impl"].split(" ; ")]
    return list(zip(cmds, chunks))


def _c11_nontrivial(r):
    k = r["op"].split(" ")[0]
    if k == "rec-life":
        return _life_crossed_mark(r)
    if k == "cache-seq":
        for cmd, out in _cache_chunks(r):
            if cmd[0] == "add" and out[0] == "some":
                # a cache-flush hit (a timer was pushed) or a refreshed entry
                ntim = _add_timers(out)
                if ntim > 0 or out[1] == "0":
                    return True
            if cmd[0] in ("evicta", "evicts", "refptr", "refres") and out[0] != "0":
                return True
            if cmd[0] in ("refst", "refhosts") and out[0] != "0":
                return True
    return False


def _add_timers(out):
    """number of timers at the end of an `add` answer: `... k t1..tk`"""
    for k in range(0, 64):
        if len(out) > k + 1 and out[-1 - k] == str(k) and all(re.fullmatch(r"[0-9]+", t) for t in out[len(out) - k:]):
            return k
    return 0


def _c10_nontrivial(r):
    k = r["op"].split(" ")[0]
    t = r["impl"].split(" ")
    if k == "suppress":
        return len(t) == 3 and t[1] == "1"          # same RDATA: TTL, class, bit, name decide
    if k == "suppress-msg":
        return t[0] == "some"
    if k == "cache-seq":
        return any(cmd[0] == "known" and out[0] not in ("0", "badtype") for cmd, out in _cache_chunks(r))
    return False


def _c11_extra(recs):
    steps = marks = flush = evict = 0
    for r in recs:
        k = r["op"].split(" ")[0]
        if k == "rec-life":
            _, st = _life_steps(r["op"])
            steps += len(st or [])
            marks += r["impl"].split(" ").count("1") if st else 0
        elif k == "cache-seq":
            for cmd, out in _cache_chunks(r):
                if cmd[0] == "add" and out[0] == "some":
                    flush += _add_timers(out)
                if cmd[0] in ("evicta", "evicts") and out[0] != "0":
                    evict += int(out[0]) if out[0].isdigit() else 0
    return dict(record_life_steps=steps, entries_flushed=flush, entries_evicted_or_reported=evict)


def _c10_extra(recs):
    sup = listed = 0
    for r in recs:
        k = r["op"].split(" ")[0]
        if k == "suppress" and r["impl"].endswith(" 1"):
            sup += 1
        elif k == "cache-seq":
            for cmd, out in _cache_chunks(r):
                if cmd[0] == "known" and out[0].isdigit():
                    listed += int(out[0])
    return dict(answers_suppressed=sup, known_answers_listed=listed)

CONFIG = {
    "C19": dict(
        modules=["Mdns.Props.C19Daemon"],
        model_files="Mdns/Model/Sched.lean",
        nontrivial=_sim_nontrivial,
        extra_evidence=_sim_extra,
        rule="histories on real daemon threads under the simulation seams (virtual clock, simulated interfaces, captured "
             "egress), generated from VERIF_SEED by harness/src/c19.rs: 1-3 interfaces (v4/v6), browse / browse again / "
             "browse_cache / stop_browse / resolve_hostname (with and without time-out, mixed case) / stop at arbitrary "
             "times around the schedule's marks, interface-check interval default / large / zero, observed event-driven "
             "over horizons up to 3.5 days of virtual time. Non-trivial = at least one packet and one client event. "
             "Distinct = distinct scripts.",
        level_text="The scheduler model (search commands, retransmission queue, timers, resolver time-outs, interface-check "
                   "timer) predicts every query (per interface and family), every search event and every requested wake-up "
                   "of these histories exactly; on it `one_schedule` (at most one queued retransmission per type/host in "
                   "every reachable state, any history) and the back-off step contracts are Lean theorems. The monitor checks "
                   "the back-off gaps 1,2,4,..,3600 s on the real packets.",
        level_note="Trusted: Lean kernel; axioms propext/Classical.choice/Quot.sound; hand model tied to the code by differential "
                   "comparison of whole histories; simulation seams bypass poll/recv/send/if_addrs/fastrand/system time; "
                   "histories here have no responders (empty cache) - queries caused by cache refresh, follow-ups, new "
                   "interfaces and verify are covered by other properties' checks.",
        partial=["the chain theorem over whole traces (k-th gap >= k-th delay) is stated as step contracts "
                 "(browse_starts_schedule, rerun_backs_off, not_due_not_sent) plus the invariant one_schedule, not yet as "
                 "one theorem over runAll"],
        assumptions=["event receivers stay alive (a dropped receiver ends the search early: not generated here)",
                     "one `now` per loop iteration"],
    ),
    "C01": dict(
        modules=["Mdns.Props.C01"],
        model_files="Mdns/Model/Decode.lean",
        nontrivial=_c01_nontrivial,
        extra_evidence=_c01_extra,
        rule="every string over {00,01,3F,40,C0,0C,'a'} up to length 4 (quick) / 6 (thorough) after a query header "
             "with one question and after a response header with one answer (exhaustive); then from VERIF_SEED: "
             "uniformly random bytes (lengths 0..9000), packets from the crate's own encoder unmodified / mutated / "
             "truncated, grammar packets (arbitrary counts, RDLENGTH exact/+-1/0/65535, known and unknown types, "
             "HINFO/NSEC corner cases, pointer graphs forward/self/cyclic/into RDATA, reserved label prefixes) in a "
             "clean and a malformed stream, and 9000-byte pointer-chain amplification shapes. Each decode runs in a "
             "worker subprocess under a 4 s watchdog with catch_unwind and a counting allocator. Non-trivial = decoded "
             "message with at least one entry, or an error on a datagram with a complete header. Distinct = distinct datagrams.",
        level_text="No panic, bounded read_name loop (<= 255 iterations, <= 127 pointers), names <= 255 bytes, entry counts and "
                   "copied bytes linear in the datagram length, record spans inside the datagram and TTL 0 -> 1 are Lean theorems "
                   "for every byte array; termination is checked by Lean at definition time. The model is compared with "
                   "DnsIncoming::new of the working tree on every run and the theorems' conclusions are evaluated on the real output.",
        level_note="Trusted: Lean kernel; axioms propext, Classical.choice, Quot.sound only; hand-written model tied to the code by "
                   "differential testing of this run's inputs; wall-clock and allocation are measured (watchdog, counting allocator), not proved.",
        assumptions=[
            "wall-clock time and allocator peaks are measured on the real decoder (watchdog 4 s, peak <= 256*len + 64 KiB), "
            "not proved; the theorems bound the model's loop iterations, entry counts and copied bytes",
            "UTF-8 validation is the model's `validUtf8` (RFC 3629), compared with core::str::from_utf8 on every generated label",
        ],
    ),
    "C10": dict(
        modules=["Mdns.Props.C10"],
        model_files="Mdns/Model/Record.lean, Mdns/Model/Cache.lean",
        nontrivial=_c10_nontrivial,
        extra_evidence=_c10_extra,
        rule="ops generated from VERIF_SEED by vharness (c11.rs): `suppress mine other` for every kind of record with the "
             "responder's TTL in {120, 4500, 0, 1, 2, 3, 7, 255, 121, 4501, 60, 10, u32::MAX-1, u32::MAX} and the listed TTL in "
             "{0, 1, h-1, h, h+1, full-1, full, full+1, u32::MAX} (h = half), the other record identical / with the cache-flush "
             "bit clear / with exactly one field changed (owner, owner letter case, class, type, each RDATA field, interface); "
             "`suppress-msg`: the same against a whole query built by the crate's encoder and decoded by DnsIncoming::new; "
             "`cache-seq`: caches of shared and unique PTR/SRV/TXT/A/AAAA records asked for known answers at ages 0, 1 ms, "
             "1 s +-1 ms, half-life -1/0/+1 ms, +1 s, expiry, with update_ttl applied to every listed copy as send_query_vec does. "
             "Non-trivial = suppress with equal RDATA (TTL, class, bit or owner decide) / a decodable query / a `known` "
             "command that lists at least one answer. Distinct = distinct op lines.",
        level_text="Component level. suppress_iff (with the exact meaning of `matches` and of the integer half), its soundness for all "
                   "records, the querier's known_iff and the written-TTL bounds (no underflow under the half-life guard) are Lean "
                   "theorems for all records and caches; the model is compared with suppressed_by_answer / suppressed_by / "
                   "get_known_answers / update_ttl of the working tree on every run and the property's clauses are evaluated on "
                   "the real answers. The full responder statement is false of the code (witness theorem D18_witness) and is kept "
                   "as C10_responder_full with suppress_partial proved; the daemon-level clauses (other matching records still "
                   "answered, query sent on every interface) are not covered at this level.",
        level_note="Trusted: Lean kernel; axioms propext, Classical.choice, Quot.sound only; hand-written model tied to the code by "
                   "differential testing of this run's inputs. Partial: suppress_partial needs equal cache-flush bits and "
                   "(addresses) equal interface - defect D18; handle_query / send_query_vec are not modelled here.",
        partial=["suppress_partial: hypothesis mine.flush = other.flush and same interface for addresses (defect D18: "
                 "suppressed_by_answer uses `matches`, which compares the cache-flush bit and the interface)"],
        assumptions=[
            "component level: the fold over the answers in handle_query and the per-interface sending of send_query_vec are not part of this check",
            "times below 2^62 ms (no u64 wrap); TTLs are u32",
            "lower-casing of host names is modelled on ASCII only; generated names are ASCII",
            "the exact half-life millisecond (now = created + 500*ttl) and a listed TTL of exactly half are not pinned by the statement (masked in the monitor)",
        ],
    ),
    "C11": dict(
        modules=["Mdns.Props.C11"],
        model_files="Mdns/Model/Record.lean, Mdns/Model/Cache.lean",
        nontrivial=_c11_nontrivial,
        extra_evidence=_c11_extra,
        rule="ops generated from VERIF_SEED by vharness (c11.rs): `rec-life` = scripted life of one fresh record for every TTL "
             "1..600, 0, 2^k, 2^k+-1 (k=1..31), 4500, 120, u32::MAX-1, u32::MAX, created at 0 / 1 / 1000 / 2^62-1 / realistic epoch "
             "times: refresh_maybe / updated_refresh_time / is_expired / expires_soon / refresh_due / halflife_passed at every mark "
             "(50/80/85/90/95/100 %) -1/0/+1 ms, jumps over several marks, repeated observations at one instant, past expiry, "
             "random monotone and non-monotone sequences, reset_ttl by a fresh copy (TTL 0, 1, 2, same, half, random) followed by "
             "the new schedule, set_expire(_sooner), refresh_no_more, get_remaining_ttl / update_ttl around their underflow; "
             "`cache-seq` = sequences on one DnsCache: flush scenarios (1-4 older records of one name on several interfaces, "
             "ages 0..2001 ms around 1000 +-1, remaining life around 1000 +-1, then a cache-flush record, a second one of the same "
             "burst), eviction at expiry -1/0/+1 ms, refresh look-ups of a browsed service at the marks, random mixes; dumps "
             "before and after. Non-trivial = at least one refresh mark crossed / a cache-flush hit or refreshed entry / an "
             "eviction or refresh look-up that returned something. Distinct = distinct op lines.",
        level_text="Component level. expired_iff, the refresh schedule as an exact characterisation over arbitrary observation sequences "
                   "(at most four, one per mark, none at or after expiry, first at the first observation in [80 %, expiry), refresh "
                   "field = next mark), reset_restarts, the cache-flush rule of add_or_update (exactly which entries get now+1000, all "
                   "others untouched, incoming stored or refreshed) and exact eviction are Lean theorems for all records, times and "
                   "entry lists; the model is compared with the DnsRecord/DnsCache functions of the working tree on every run and the "
                   "property's clauses are evaluated on the real answers and dumps. The daemon-level clause (re-queries on the wire "
                   "while a search is open) is not covered at this level.",
        level_note="Trusted: Lean kernel; axioms propext, Classical.choice, Quot.sound only; hand-written model tied to the code by "
                   "differential testing of this run's inputs. u64 arithmetic modelled unbounded below 2^62 ms; update_ttl / "
                   "get_remaining_ttl underflow modelled as panic (overflow checks on in the harness profile).",
        assumptions=[
            "component level: which records the run loop refreshes (refresh_active_services) and the packets it sends are not part of this check",
            "times below 2^62 ms (get_expiration_time does not wrap); TTLs are u32",
            "TTL 0 -> 1 s is a property of the decoder (C01.decode_ttl0, restated as ttl0_one_second); DnsRecord::new itself keeps TTL 0",
            "evict_expired_services attributes an expired SRV to the first type domain in hash order when several type domains point to "
            "one instance: generated instances belong to one type domain each",
            "refresh_due_hosts processes host names in hash order: generated SRV host names do not differ only in letter case",
            "lower-casing modelled on ASCII only; record kind consistent with record type (as DnsIncoming produces them)",
        ],
    ),
    "C16": dict(
        modules=["Mdns.Props.C16"],
        model_files="Mdns/Model/Txt.lean",
        nontrivial=_c16_nontrivial,
        rule="ops generated from VERIF_SEED by vharness (c16.rs): property lists through Vec<TxtProperty>, "
             "&[(K,V)], HashMap, Option<HashMap> with key/value lengths around 0/1/254/255/256, binary values, "
             "duplicate and case-variant keys, a separate share of invalid keys; arbitrary and mutated TXT bytes "
             "for decoding; case-insensitive lookups. Non-trivial = creation accepted with at least one "
             "property / decoding yields at least one property / lookup hits. Distinct = distinct op lines.",
        level_text="Round trip, refusal of unrepresentable properties, decoder totality/in-bounds and case-insensitive first-key-wins "
                   "lookup are Lean theorems for all property lists and all byte strings; the model is compared with ServiceInfo::new/"
                   "encode_txt/decode_txt/decode_txt_unique/TxtProperties::get of the working tree on every run and the theorems' "
                   "conclusions are evaluated on the real outputs.",
        level_note="Trusted: Lean kernel; axioms propext, Classical.choice, Quot.sound only; the hand-written model is tied to the code by "
                   "differential testing of this run's generated inputs (not by proof); lower-casing modelled on ASCII; HashMap "
                   "storage order read from the implementation.",
        assumptions=[
            "lower-casing is modelled on ASCII only; decode_txt_unique is compared only on inputs whose keys are ASCII",
            "the storage order of HashMap inputs is read from the implementation (hash seed is an environment input)",
        ],
    ),
}

# reasons for properties that are deliberately not claimed (default text in tools/mkmanifest.py)
NOT_CLAIMED = {}
