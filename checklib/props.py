"""Per-property configuration of ./check: theorem modules, non-triviality rules,
shrinkers and mutators for the search after a broken correspondence."""
import random
import re

shrinkers = {}
mutators = {}


# ------------------------------------------------------------------------------ C16

def _props_of(toks, i):
    """parse `n (key valopt)*` starting at toks[i]; returns (list of token-lists, next index)"""
    n = int(toks[i])
    i += 1
    items = []
    for _ in range(n):
        if toks[i + 1] == "none":
            items.append(toks[i:i + 2])
            i += 2
        else:
            items.append(toks[i:i + 3])
            i += 3
    return items, i


def _shrink_txt_props(op):
    toks = op.split(" ")
    start = 2 if toks[0] == "txt-trip" else 1
    try:
        items, end = _props_of(toks, start)
    except (ValueError, IndexError):
        return
    for k in range(len(items)):
        rest = items[:k] + items[k + 1:]
        yield " ".join(toks[:start] + [str(len(rest))] + [t for it in rest for t in it] + toks[end:])


shrinkers["txt-trip"] = _shrink_txt_props
shrinkers["txt-get"] = _shrink_txt_props


def _mutate_hex_op(op, seed):
    """byte-level neighbours of every hex token of an op"""
    rnd = random.Random(seed)
    toks = op.split(" ")
    idx = [i for i, t in enumerate(toks) if i > 0 and re.fullmatch(r"([0-9a-f]{2})+", t)]
    if not idx:
        return
    while True:
        i = rnd.choice(idx)
        b = bytearray.fromhex(toks[i])
        k = rnd.randrange(len(b))
        c = rnd.randrange(4)
        if c == 0:
            b[k] = rnd.choice([0, 1, 0x3d, 0x41, 0x61, 0x7f, 0x80, 0xff, (b[k] + 1) % 256, (b[k] - 1) % 256])
        elif c == 1 and len(b) > 1:
            del b[k]
        elif c == 2:
            b.insert(k, rnd.choice([0, 0x3d, 0x61, 0x41, 0xff]))
        else:
            b[k] ^= 1 << rnd.randrange(8)
        t = b.hex() if b else "-"
        yield " ".join(toks[:i] + [t] + toks[i + 1:])


for _k in ("txt-trip", "txt-decode", "txt-decode-unique", "txt-get"):
    mutators[_k] = _mutate_hex_op


def _c16_nontrivial(r):
    op = r["op"].split(" ")
    if op[0] == "txt-trip":
        return r["impl"].startswith("ok") and op[2] != "0"
    if op[0] in ("txt-decode", "txt-decode-unique"):
        return r["impl"].startswith("ok") and not r["impl"].startswith("ok 0")
    if op[0] == "txt-get":
        return r["impl"].startswith("some")
    return False


CONFIG = {
    "C16": dict(
        modules=["Mdns.Props.C16"],
        model_files="Mdns/Model/Txt.lean",
        nontrivial=_c16_nontrivial,
        rule="ops generated from VERIF_SEED by vharness (c16.rs): property lists through Vec<TxtProperty>, "
             "&[(K,V)], HashMap, Option<HashMap> with key/value lengths around 0/1/254/255/256, binary values, "
             "duplicate and case-variant keys, a separate share of invalid keys; arbitrary and mutated TXT bytes "
             "for decoding; case-insensitive lookups. Non-trivial = creation accepted with at least one "
             "property / decoding yields at least one property / lookup hits. Distinct = distinct op lines.",
        assumptions=[
            "lower-casing is modelled on ASCII only; decode_txt_unique is compared only on inputs whose keys are ASCII",
            "the storage order of HashMap inputs is read from the implementation (hash seed is an environment input)",
        ],
    ),
}
