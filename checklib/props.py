"""Per-property configuration of ./check: theorem modules, non-triviality rules,
shrinkers and mutators for the search after a broken correspondence."""
import random
import re

shrinkers = {}
mutators = {}


# ------------------------------------------------------------------------------ C16

def _props_of(toks, i):
    """parse `n (key valopt)*` starting at toks[i]; returns (list of token-lists, next index)"""
    n = int(toks[i])
    i += 1
    items = []
    for _ in range(n):
        if toks[i + 1] == "none":
            items.append(toks[i:i + 2])
            i += 2
        else:
            items.append(toks[i:i + 3])
            i += 3
    return items, i


def _shrink_txt_props(op):
    toks = op.split(" ")
    start = 2 if toks[0] == "txt-trip" else 1
    try:
        items, end = _props_of(toks, start)
    except (ValueError, IndexError):
        return
    for k in range(len(items)):
        rest = items[:k] + items[k + 1:]
        yield " ".join(toks[:start] + [str(len(rest))] + [t for it in rest for t in it] + toks[end:])


shrinkers["txt-trip"] = _shrink_txt_props
shrinkers["txt-get"] = _shrink_txt_props
shrinkers["txt-getters"] = _shrink_txt_props


def _mutate_hex_op(op, seed):
    """byte-level neighbours of every hex token of an op"""
    rnd = random.Random(seed)
    toks = op.split(" ")
    idx = [i for i, t in enumerate(toks) if i > 0 and re.fullmatch(r"([0-9a-f]{2})+", t)]
    if not idx:
        return
    while True:
        i = rnd.choice(idx)
        b = bytearray.fromhex(toks[i])
        k = rnd.randrange(len(b))
        c = rnd.randrange(4)
        if c == 0:
            b[k] = rnd.choice([0, 1, 0x3d, 0x41, 0x61, 0x7f, 0x80, 0xff, (b[k] + 1) % 256, (b[k] - 1) % 256])
        elif c == 1 and len(b) > 1:
            del b[k]
        elif c == 2:
            b.insert(k, rnd.choice([0, 0x3d, 0x61, 0x41, 0xff]))
        else:
            b[k] ^= 1 << rnd.randrange(8)
        t = b.hex() if b else "-"
        yield " ".join(toks[:i] + [t] + toks[i + 1:])


for _k in ("txt-trip", "txt-decode", "txt-decode-unique", "txt-get", "txt-getters"):
    mutators[_k] = _mutate_hex_op


def _c16_nontrivial(r):
    op = r["op"].split(" ")
    if op[0] == "txt-trip":
        return r["impl"].startswith("ok") and op[2] != "0"
    if op[0] in ("txt-decode", "txt-decode-unique"):
        return r["impl"].startswith("ok") and not r["impl"].startswith("ok 0")
    if op[0] in ("txt-get", "txt-getters"):
        return r["impl"].startswith("some") or r["impl"].startswith("1")
    return False


def _shrink_sim(op):
    head, _, script = op.partition(" daemon ")
    cmds = ("daemon " + script).split(" ; ")
    # the first `run` fixes the start of the history's clock: API calls before it have no
    # defined time (the two schedulers of `sim2` then disagree by construction)
    first_run = next((k for k, c in enumerate(cmds) if c.startswith("run ")), -1)
    for k in range(len(cmds) - 1, 0, -1):
        if cmds[k].startswith(("daemon", "link")) or k == first_run:
            continue
        yield head + " " + " ; ".join(cmds[:k] + cmds[k + 1:])


shrinkers["sim"] = _shrink_sim
shrinkers["sim2"] = _shrink_sim


def _sim_nontrivial(r):
    # at least one packet sent and one client event observed
    return " tx " in r["impl"] and " ev " in r["impl"]


def _sim_extra(recs):
    its = sum(r["impl"].count("it ") for r in recs)
    tx = sum(r["impl"].count(" tx ") for r in recs)
    ev = sum(r["impl"].count(" ev ") for r in recs)
    nomodel = sum(1 for r in recs if r["model"] == "nomodel")
    return dict(loop_iterations_observed=its, packets_observed=tx, client_events_observed=ev,
                histories_compared_with_model=len(recs) - nomodel, histories_monitor_only=nomodel)


def _c01_nontrivial(r):
    # the decoder got past the header: a message with at least one entry, or an error on
    # a datagram that has at least a full header
    if r["impl"].startswith("ok"):
        t = r["impl"].split(" ")
        return len(t) > 8
    return len(r["op"].split(" ")[1]) >= 24 + 2


def _c01_extra(recs):
    peak = us = 0
    big = 0
    for r in recs:
        m = re.search(r"peak=(\d+) us=(\d+) len=(\d+)", r.get("meas", ""))
        if m:
            peak = max(peak, int(m.group(1)))
            us = max(us, int(m.group(2)))
            big += int(m.group(3)) >= 1000
    return dict(max_peak_alloc_bytes=peak, max_decode_micros=us, datagrams_of_1000_bytes_or_more=big)


mutators["decode"] = _mutate_hex_op


# ------------------------------------------------------------------------ C11 / C10

_LIFE_STEPS = {"exp": 1, "soon": 1, "due": 1, "half": 1, "refresh": 1, "upd": 1, "nomore": 0, "reset": 2,
               "updttl": 1, "remttl": 1, "sooner": 1, "setexp": 1, "view": 0}
_CACHE_CMDS = ("add", "evicta", "evicts", "known", "refptr", "refst", "refhosts", "refres", "rmtype", "verify", "dump")


def _life_steps(op):
    """(head tokens, [step token lists]) of a rec-life op"""
    toks = op.split(" ")
    steps, i = [], 4
    while i < len(toks):
        n = _LIFE_STEPS.get(toks[i])
        if n is None:
            return toks[:3], None
        steps.append(toks[i:i + 1 + n])
        i += 1 + n
    return toks[:3], steps


def _cache_cmds(op):
    """the commands of a cache-seq op as token lists (command words are not hex, not numbers)"""
    toks = op.split(" ")
    cmds = []
    for t in toks[2:]:
        if t in _CACHE_CMDS:
            cmds.append([t])
        elif cmds:
            cmds[-1].append(t)
    return cmds


def _shrink_life(op):
    head, steps = _life_steps(op)
    if not steps:
        return
    for k in range(len(steps)):
        rest = steps[:k] + steps[k + 1:]
        yield " ".join(head + [str(len(rest))] + [t for st in rest for t in st])


def _shrink_cache(op):
    cmds = _cache_cmds(op)
    for k in range(len(cmds)):
        rest = cmds[:k] + cmds[k + 1:]
        yield " ".join(["cache-seq", str(len(rest))] + [t for c in rest for t in c])


shrinkers["rec-life"] = _shrink_life
shrinkers["cache-seq"] = _shrink_cache


def _mutate_numbers(op, seed):
    """neighbours of the numeric fields (times, TTLs) of an op"""
    rnd = random.Random(seed)
    toks = op.split(" ")
    idx = [i for i, t in enumerate(toks) if i > 0 and re.fullmatch(r"[0-9]+", t) and (len(t) % 2 == 1 or int(t) > 99)]
    if not idx:
        idx = [i for i, t in enumerate(toks) if i > 0 and re.fullmatch(r"[0-9]+", t)]
    if not idx:
        return
    while True:
        i = rnd.choice(idx)
        v = int(toks[i])
        v2 = max(0, rnd.choice([v - 1, v + 1, v - 1000, v + 1000, v // 2, v * 2, v + 500]))
        yield " ".join(toks[:i] + [str(v2)] + toks[i + 1:])


for _k in ("rec-life", "suppress", "cache-seq"):
    mutators[_k] = _mutate_numbers
mutators["suppress-msg"] = _mutate_hex_op


def _life_crossed_mark(r):
    """a rec-life case in which at least one re-query was triggered"""
    head, steps = _life_steps(r["op"])
    if not steps:
        return False
    ans = r["impl"].split(" ")
    i = 0
    for st in steps:
        k = st[0]
        if i >= len(ans):
            return False
        if k == "refresh":
            if ans[i] == "1":
                return True
            i += 2
        elif k == "upd":
            if ans[i] == "some":
                return True
            i += 1
        elif k in ("updttl", "remttl"):
            i += 1 if ans[i] == "panic" else 2
        elif k in ("reset", "view"):
            i += 4
        else:
            i += 1
    return False


def _cache_chunks(r):
    cmds = _cache_cmds(r["op"])
    chunks = [c.split(" ") for c in r["impl"].split(" ; ")]
    return list(zip(cmds, chunks))


def _c11_nontrivial(r):
    k = r["op"].split(" ")[0]
    if k == "rec-life":
        return _life_crossed_mark(r)
    if k == "cache-seq":
        for cmd, out in _cache_chunks(r):
            if cmd[0] == "add" and out[0] == "some":
                # a cache-flush hit (a timer was pushed) or a refreshed entry
                ntim = _add_timers(out)
                if ntim > 0 or out[1] == "0":
                    return True
            if cmd[0] in ("evicta", "evicts", "refptr", "refres") and out[0] != "0":
                return True
            if cmd[0] in ("refst", "refhosts") and out[0] != "0":
                return True
    return False


def _add_timers(out):
    """number of timers at the end of an `add` answer: `... k t1..tk`"""
    for k in range(0, 64):
        if len(out) > k + 1 and out[-1 - k] == str(k) and all(re.fullmatch(r"[0-9]+", t) for t in out[len(out) - k:]):
            return k
    return 0


def _c10_nontrivial(r):
    k = r["op"].split(" ")[0]
    t = r["impl"].split(" ")
    if k == "suppress":
        return len(t) == 3 and t[1] == "1"          # same RDATA: TTL, class, bit, name decide
    if k == "suppress-msg":
        return t[0] == "some"
    if k == "cache-seq":
        return any(cmd[0] == "known" and out[0] not in ("0", "badtype") for cmd, out in _cache_chunks(r))
    return False


def _c11_extra(recs):
    steps = marks = flush = evict = 0
    for r in recs:
        k = r["op"].split(" ")[0]
        if k == "rec-life":
            _, st = _life_steps(r["op"])
            steps += len(st or [])
            marks += r["impl"].split(" ").count("1") if st else 0
        elif k == "cache-seq":
            for cmd, out in _cache_chunks(r):
                if cmd[0] == "add" and out[0] == "some":
                    flush += _add_timers(out)
                if cmd[0] in ("evicta", "evicts") and out[0] != "0":
                    evict += int(out[0]) if out[0].isdigit() else 0
    return dict(record_life_steps=steps, entries_flushed=flush, entries_evicted_or_reported=evict)


def _c10_extra(recs):
    sup = listed = 0
    for r in recs:
        k = r["op"].split(" ")[0]
        if k == "suppress" and r["impl"].endswith(" 1"):
            sup += 1
        elif k == "cache-seq":
            for cmd, out in _cache_chunks(r):
                if cmd[0] == "known" and out[0].isdigit():
                    listed += int(out[0])
    return dict(answers_suppressed=sup, known_answers_listed=listed)

_C19_DAEMON = dict(
        modules=["Mdns.Props.C19Daemon"],
        model_files="Mdns/Model/Sched.lean, Mdns/Model/Client.lean",
        nontrivial=_sim_nontrivial,
        extra_evidence=_sim_extra,
        rule="histories on real daemon threads under the simulation seams (virtual clock, simulated interfaces, captured "
             "egress), generated from VERIF_SEED by harness/src/c19.rs: 1-3 interfaces (v4/v6), browse / browse again / "
             "browse_cache / stop_browse / resolve_hostname (with and without time-out, mixed case) / stop at arbitrary "
             "times around the schedule's marks, interface-check interval default / large / zero, observed event-driven "
             "over horizons up to 3.5 days of virtual time. Non-trivial = at least one packet and one client event. "
             "Distinct = distinct scripts.",
        level_text="The scheduler model (search commands, retransmission queue, timers, resolver time-outs, interface-check "
                   "timer) predicts every query (per interface and family), every search event and every requested wake-up "
                   "of these histories exactly; on it `one_schedule` (at most one queued retransmission per type/host in "
                   "every reachable state, any history) and the back-off step contracts are Lean theorems. The monitor checks "
                   "the back-off gaps 1,2,4,..,3600 s on the real packets. On the CLIENT model (Client.iter, compared with the real "
                   "daemon per iteration; Props/C19.lean section ClientModel; whole histories from the fresh daemon, any times / "
                   "packets / commands): one_schedule_client (at most one queued retransmission per browsed type and per "
                   "lower-cased host name), carried_delay_in_range (1 <= delay <= 3600), browse_rerun_doubles / "
                   "resolve_rerun_doubles (next run `delay` s later carrying min(2*delay, 3600)), schedule_arith_safe (Delay.step "
                   "= ok: no u32 overflow, gap <= 3 600 000 ms), due_time_bounded (no u64 overflow below 2^63), and the chain: "
                   "browse_schedule_starts, browse_schedule_step, browse_schedule_chain (from query number k sent at t, after ANY "
                   "history without browse/stop of the type the schedule is at number k+n sent at t' >= t + 1000 * (delay k + ... "
                   "+ delay (k+n-1))). The same chain for hostname searches, up to the deadline: resolve_schedule_starts, "
                   "resolve_schedule_step, resolve_schedule_chain, resolve_schedule_from_call (after ANY history that neither "
                   "searches nor stops the name the schedule got as far as query number k+n at t' >= t + 1000 * (delay k + ... + "
                   "delay (k+n-1)) and is either still running there, or over - and then only because the next query would not "
                   "have come before the deadline or an iteration came at / after the deadline), resolve_schedule_stays_over.",
        level_note="Trusted: Lean kernel; axioms propext/Classical.choice/Quot.sound; hand model tied to the code by differential "
                   "comparison of whole histories; simulation seams bypass poll/recv/send/if_addrs/fastrand/system time; "
                   "histories here have no responders (empty cache) - queries caused by cache refresh, follow-ups, new "
                   "interfaces and verify are covered by other properties' checks.",
        partial=["the chain theorems (browse_schedule_chain, resolve_schedule_chain) bound the gaps from below for ANY scheduler; "
                 "that each query of the schedule goes out AT its due time needs a timely scheduler (C12 wake_never_late on the "
                 "client model: the due time is a timer) and is not stated as one theorem"],
        assumptions=["event receivers stay alive (a dropped receiver ends the search early: not generated here)",
                     "one `now` per loop iteration"],
)

# ------------------------------------------------------------------ C08 / C18 / C19

_RDATA_ARGS = {"a": 1, "aaaa": 1, "ptr": 1, "txt": 1, "srv": 4, "hinfo": 2, "nsec": 2}


def _recdescs_of(toks, i):
    """parse `n (<namehex> <ty> <class> <ttl> <rdata>)*` at toks[i]; returns (items, next index)"""
    n = int(toks[i])
    i += 1
    items = []
    for _ in range(n):
        k = 5 + _RDATA_ARGS[toks[i + 4]]
        items.append(toks[i:i + k])
        i += k
    return items, i


def _shrink_tiebreak(op):
    toks = op.split(" ")
    try:
        a, j = _recdescs_of(toks, 4)
        b, end = _recdescs_of(toks, j)
    except (ValueError, IndexError, KeyError):
        return

    def line(a, b):
        return " ".join(toks[:4] + [str(len(a))] + [t for it in a for t in it] + [str(len(b))] + [t for it in b for t in it])
    for k in range(len(a)):
        yield line(a[:k] + a[k + 1:], b)
    for k in range(len(b)):
        yield line(a, b[:k] + b[k + 1:])


shrinkers["tiebreak"] = _shrink_tiebreak

_KIND_ARGS = {"all": 0, "ipv4": 0, "ipv6": 0, "lo4": 0, "lo6": 0, "name": 1, "addr": 1, "idx4": 1, "idx6": 1,
              "pred-prefix": 1, "pred-parity": 1}


def _ifaces_of(toks, i):
    n = int(toks[i])
    i += 1
    items = []
    for _ in range(n):
        k = 4 if toks[i + 1] == "none" else 5
        items.append(toks[i:i + k])
        i += k
    return items, i


def _shrink_select(op):
    toks = op.split(" ")
    try:
        n = int(toks[1])
        i = 2
        sels = []
        for _ in range(n):
            k = 2 + _KIND_ARGS[toks[i]]
            sels.append(toks[i:i + k])
            i += k
        ifs, _ = _ifaces_of(toks, i)
    except (ValueError, IndexError, KeyError):
        return

    def line(sels, ifs):
        return " ".join(["select", str(len(sels))] + [t for it in sels for t in it] + [str(len(ifs))] + [t for it in ifs for t in it])
    for k in range(len(sels)):
        yield line(sels[:k] + sels[k + 1:], ifs)
    for k in range(len(ifs)):
        yield line(sels, ifs[:k] + ifs[k + 1:])


shrinkers["select"] = _shrink_select


def _shrink_backoff(op):
    toks = op.split(" ")
    try:
        k = int(toks[4])
    except (ValueError, IndexError):
        return
    for smaller in (2, 3, k // 2, k - 1):
        if 1 <= smaller < k:
            yield " ".join(toks[:4] + [str(smaller)])


shrinkers["backoff"] = _shrink_backoff

for _k in ("name-change", "hostname-change", "check-name", "split-sub", "escaped-labels"):
    mutators[_k] = _mutate_hex_op


def _c08_nontrivial(r):
    t = r["op"].split(" ")
    if t[0] == "rec-compare":
        # class and type equal: the RDATA comparison decides
        try:
            a, _ = _recdescs_of(["2"] + t[1:], 0)
        except (ValueError, IndexError, KeyError):
            return False
        return a[0][1:3] == a[1][1:3] and (int(a[0][2]) ^ int(a[1][2])) & 0x7FFF == 0
    if t[0] == "tiebreak":
        # probe started and both sides bring records
        try:
            a, j = _recdescs_of(t, 4)
            b, _ = _recdescs_of(t, j)
        except (ValueError, IndexError, KeyError):
            return False
        return int(t[1]) < int(t[2]) and len(a) > 0 and len(b) > 0
    if t[0] in ("name-change", "hostname-change"):
        return r["impl"].startswith("ok")
    return False


def _c08_extra(recs):
    lost = ties = rt0 = 0
    for r in recs:
        if r["op"].startswith("tiebreak ") and r["impl"].startswith("ok"):
            n = r["impl"].split(" ").count("lost")
            lost += n == 1
            ties += n == 0
            rt0 += "rt=0" in r.get("meas", "")
    return dict(tiebreaks_with_one_loser=lost, tiebreaks_without_loser=ties,
                tiebreaks_where_the_wire_changed_the_compared_data=rt0)


def _c18_nontrivial(r):
    t = r["op"].split(" ")
    if t[0] in ("select", "select-at"):
        return t[1] != "0" and not r["impl"].startswith("ok 0")
    if t[0] == "valid-ip":
        return len(t[1]) == len(t[2])
    if t[0] == "addrs-on-intf":
        return t[2] != "0" and t[-1] != "0" and len(t) > 5
    return t[0] in ("if-match", "resolve-addr")


def _c19_nontrivial(r):
    t = r["impl"].split(" ")
    return t[0] == "ok" and len(t) > 3 and int(t[2]) >= 1
# ------------------------------------------------------------------------------ C02

def _encode_parse(op):
    """structure of an `encode` op: (head tokens, questions, answers, authorities, additionals),
    every entry a list of tokens"""
    t = op.split(" ")
    i = 3
    head = t[:3]

    def rec(i):
        j = i + 4
        j += 5 if t[j] == "srv" else 2
        return j

    nq = int(t[i]); i += 1
    qs = []
    for _ in range(nq):
        qs.append(t[i:i + 2]); i += 2
    nan = int(t[i]); i += 1
    an = []
    for _ in range(nan):
        j = rec(i) + 1
        an.append(t[i:j]); i = j
    secs = []
    for _ in range(2):
        n = int(t[i]); i += 1
        sec = []
        for _ in range(n):
            j = rec(i)
            sec.append(t[i:j]); i = j
        secs.append(sec)
    return head, qs, an, secs[0], secs[1]


def _encode_render(head, qs, an, au, ad):
    out = list(head)
    for sec in (qs, an, au, ad):
        out.append(str(len(sec)))
        for e in sec:
            out += e
    return " ".join(out)


def _shrink_encode(op):
    try:
        head, qs, an, au, ad = _encode_parse(op)
    except (ValueError, IndexError):
        return
    secs = [qs, an, au, ad]
    for si, sec in enumerate(secs):
        if len(sec) > 8:            # halves first
            for half in (sec[:len(sec) // 2], sec[len(sec) // 2:]):
                c = list(secs); c[si] = half
                yield _encode_render(head, *c)
        for k in range(min(len(sec), 40)):
            c = list(secs); c[si] = sec[:k] + sec[k + 1:]
            yield _encode_render(head, *c)


def _mutate_encode(op, seed):
    """neighbours of an encode op that stay well-formed: drop / duplicate / swap entries,
    change numeric fields to boundary values, replace ASCII bytes of names by '.', '\\', 'a'"""
    rnd = random.Random(seed)
    try:
        head, qs, an, au, ad = _encode_parse(op)
    except (ValueError, IndexError):
        return
    while True:
        secs = [list(qs), [list(e) for e in an], [list(e) for e in au], [list(e) for e in ad]]
        h = list(head)
        c = rnd.randrange(6)
        nonempty = [i for i in range(4) if secs[i]]
        if c == 0:
            h[1] = str(rnd.choice([0, 0x8400, 0x8000, 0x0200]))
        elif not nonempty:
            continue
        else:
            si = rnd.choice(nonempty)
            k = rnd.randrange(len(secs[si]))
            e = list(secs[si][k])
            if c == 1:
                del secs[si][k]
            elif c == 2:
                secs[si].insert(rnd.randrange(len(secs[si]) + 1), e)
            elif c == 3 and si > 0:
                e[3] = str(rnd.choice([0, 1, 120, 2 ** 31, 2 ** 32 - 1]))
                e[2] = str(rnd.choice([1, 0x8001, 0x7FFF]))
                secs[si][k] = e
            elif c == 4 and si > 0 and e[4] == "txt" and e[5] != "-":
                b = bytes.fromhex(e[5])
                d = rnd.choice([-1, 1, -2, 2])
                b = b[:max(0, len(b) + d)] if d < 0 else b + b"\x00" * d
                e[5] = b.hex() if b else "-"
                secs[si][k] = e
            else:
                # a name token: owner (index 0) or the rdata name
                idx = [0]
                if si > 0 and e[4] == "ptr":
                    idx.append(5)
                if si > 0 and e[4] == "srv":
                    idx.append(8)
                j = rnd.choice(idx)
                if e[j] == "-":
                    continue
                b = bytearray.fromhex(e[j])
                pos = [x for x in range(len(b)) if b[x] < 0x80]
                if not pos:
                    continue
                b[rnd.choice(pos)] = rnd.choice([0x2e, 0x5c, 0x61])
                e[j] = b.hex()
                secs[si][k] = e
        yield _encode_render(h, *secs)


shrinkers["encode"] = _shrink_encode
mutators["encode"] = _mutate_encode


def _c02_meas(r):
    return {k: int(v) for k, v in re.findall(r"(\w+)=(\d+)", r.get("meas", ""))}


def _c02_nontrivial(r):
    # at least one compression pointer was emitted
    return r["op"].startswith("encode ") and _c02_meas(r).get("ptrs", 0) > 0


def _c02_extra(recs):
    enc = [r for r in recs if r["op"].startswith("encode ")]
    ms = [_c02_meas(r) for r in enc]
    return dict(
        encode_cases=len(enc),
        with_compression_pointer=sum(1 for m in ms if m.get("ptrs", 0) > 0),
        with_record_left_out_or_expired=sum(1 for m in ms if m.get("left", 0) > 0),
        with_several_packets=sum(1 for m in ms if m.get("pk", 0) > 1),
        first_packet_at_8971_8972=sum(1 for m in ms if m.get("max", 0) in (8971, 8972)),
        largest_packet=max([m.get("max", 0) for m in ms] or [0]),
        encoder_panics_outside_domain=sum(1 for r in enc if r["impl"] == "panic"),
    )

CONFIG = {
    "C08": dict(
        modules=["Mdns.Props.C08"],
        model_files="Mdns/Model/Compare.lean, Mdns/Model/Names.lean",
        nontrivial=lambda r: (_sim_nontrivial(r) if r["op"].startswith("sim") else _c08_nontrivial(r)),
        extra_evidence=lambda recs: dict(_c08_extra([r for r in recs if not r["op"].startswith("sim")]),
                                         duels=_sim_extra([r for r in recs if r["op"].startswith("sim")])),
        partial=[
            "theorems are about the component level: the comparison, the tiebreak decision, the renaming functions and the name checks",
            "daemon level, one daemon against injected conflicts (rename, probing again, announcement, NameChange): inside the responder model, exact correspondence under C07 / C06",
            "daemon level, two or three daemons (`sim C08` duels): no model - decided by the monitor Mdns/Driver/MonDuel.lean on real traces (exactly one holder, "
            "everybody announced, no shared instance / host name, renames as the proved functions say, new names used afterwards); known findings D37-D39",
            "clause 'the new name is still encodable': full statement false of the code (D13, D15, D15b are known findings); proved: rename_keeps_name_encodable_partial",
        ],
        rule="exhaustive: rec-compare on all ordered pairs of a 46-record alphabet (every RDATA kind, neighbouring values, both "
             "classes, cache-flush bit, type numbers that belong to another kind); tiebreak on all ordered pairs of record lists of "
             "length <= 2 over 7 records (quick) / length <= 3 over 5 records (thorough), each executed from both probers' "
             "perspectives through the crate's encoder and decoder. From VERIF_SEED: random larger record sets, reordered / "
             "one-record-changed copies, foreign owner names, probe not yet started; probe timing at 0/249/250/251/499/500/749/750/751 ms; the send / end loop of a probe "
             "(probe-run) over timely, late, bursty and random instants; "
             "renaming of 33 first labels (escaped dots and backslashes, multi-byte UTF-8, spaces, parentheses, hyphens) x 27 "
             "number spellings (0, 9, 99, leading zeros, '+', '-', 4294967294..4294967296, 20 digits, non-ASCII digits) as '(N)' and "
             "'-N' suffix x 6 tails, label lengths 55..65 and name lengths 249..256, repeated renaming; the name checks on 665 "
             "type/instance/domain combinations. Non-trivial = comparison reaching RDATA / started probe with records on both sides / "
             "rename that returns. Distinct = distinct op lines.",
        level_text="Component-level part of C08. Lean theorems for all records and record lists: the comparison is class, then type, then "
                   "RDATA (compare_order); it is antisymmetric and equal only on identical data (compare_antisymm, compare_eq_iff; decoded "
                   "records are proved well-typed, decoded_compatible), so two probers reach opposite verdicts, never both yield, and nobody "
                   "yields only on identical data (tiebreak_opposite, tiebreak_tie_iff, tiebreak_two_probers); fewer records yield "
                   "(tiebreak_length_rule); the loser restarts exactly one second later (tiebreaking_spec). name_change / hostname_change "
                   "append ' (2)' / '-2' or count an existing suffix up, keep everything from the first dot on, count 2, 3, 4, ... on repeated "
                   "renaming, and are total - never an error, never a panic; at the counter 4294967295 a fresh suffix is appended (name_change_spec, "
                   "hostname_change_spec, *_counts_up, rename_total); the first part grows by at most 4 / 2 bytes (rename_label_bound). The full "
                   "clause 'the new name is still encodable' is false of the code (rename_keeps_name_encodable_full_is_false; known findings "
                   "D13, D15, D15b); proved instead: rename_keeps_name_encodable_partial (first label without escapes, <= 59 / 61 bytes, "
                   "name <= 251 / 253 bytes). The model is compared with DnsRecordExt::compare, Probe::tiebreaking (through the real encoder and "
                   "decoder, from both probers' sides), name_change, hostname_change, the check_* functions and parse_escaped_name of the working "
                   "tree on every run, and the theorems' conclusions are evaluated on the real outputs. The daemon-level clauses of C08 (see "
                   "coverage.partial) are not covered yet.",
        level_note="Trusted: Lean kernel; axioms propext, Classical.choice, Quot.sound only; hand-written model tied to the code by differential "
                   "testing of this run's inputs; the order of same-type records inside a probe (binary_search_by leaves it open) is read from "
                   "the implementation. Known findings D13, D15, D15b are reproduced on every run and listed, not suppressed silently.",
        assumptions=[
            "the order insert_record gives records of equal (class, type) is unspecified by binary_search_by; it is read from the implementation "
            "after checking that it is a sorted permutation, and the theorems hold for every such order",
            "tiebreak ops use owner names and RDATA names without escapes and with a trailing dot, for which encoder and decoder keep the compared "
            "data (measured per op as rt=1); SRV targets are compared as decoded strings, not in wire form",
            "compare is antisymmetric for records whose Rust struct is determined by class and type (all decoded records, all records the daemon "
            "builds); a pointer record constructed with the type number of an address record compares Greater in both directions",
            "now + 1000 and start + 750 are modelled without u64 overflow",
        ],
    ),
    "C18": dict(
        modules=["Mdns.Props.C18"],
        model_files="Mdns/Model/Intf.lean",
        nontrivial=lambda r: (_sim_nontrivial(r) if r["op"].startswith("sim") else _c18_nontrivial(r)),
        extra_evidence=lambda recs: _sim_extra([r for r in recs if r["op"].startswith("sim")]),
        partial=[
            "theorems are about the component level (IfKind::matches, the selection loop, resolve_addr_to_index, valid_ip_on_intf, get_addrs_on_my_intf_v4/v6); "
            "the daemon level (what leaves on which interface, what is still reported after a disable / after an interface vanished) has no model: it is decided by "
            "the monitor Mdns/Driver/MonLink.lean on `sim C18` histories, which computes the enabled addresses with the proved selection function",
            "not covered: addr_auto services following address changes; 'instances that lost other records are resolved again with what is left'; IpAdd / IpDel events",
        ],
        rule="exhaustive: every IfKind of a 19-kind alphabet against 11 interfaces (v4/v6, loopback, index none/0, shared names); every "
             "enable/disable sequence of length <= 3 over 6 kinds and of length 4 over 4 kinds on topologies of 1-3 interfaces; every "
             "prefix length 0..32 (and 0,1,7,8,9,63,64,65,127,128 for v6; all in thorough) with addresses differing from the interface "
             "address in the bit before / at / after the prefix boundary, non-contiguous masks, mixed families. From VERIF_SEED: random "
             "selection sequences (length <= 6) on random tables (<= 4 entries, duplicates, empty), Addr selections resolved against "
             "the table of their call and applied to a later table, service address sets against interface address sets. "
             "Non-trivial = at least one selection and one interface / same-family subnet test / non-empty address sets. "
             "Distinct = distinct op lines. PLUS daemon level (`sim C18`, harness/src/c18.rs gen_links): one daemon on 1-3 simulated interfaces "
             "(IPv4 only, IPv6 only, dual stack, three subnets), a browse and sometimes a hostname search, announcements of a dual-stack "
             "responder delivered on chosen links (an IPv4-only interface learns AAAA records too), an own registration with addresses "
             "on several subnets, 1-3 enable / disable selections of every kind and changes of the interface table (interface or one "
             "address removed, interface added, table restored), then the interface check and a fresh browse / search reporting from the cache.",
        level_text="Component-level part of C18. Lean theorems: an interface is selected iff the last matching selection (in call order) "
                   "enables it, enabled by default, independently of the other interfaces present, hence also for interfaces that appear "
                   "later (selected_iff, selected_later_interface, last_match_wins); an Addr selection is stored as index + family when the "
                   "address is present at the time of the call (resolve_addr_spec); the subnet test is equality under the netmask, octet by "
                   "octet, which for a /p mask is equality of the leading p bits, and never holds across families (validIp_iff_bytes, "
                   "validIp_iff_same_subnet, validIp_family); the addresses used on an interface are exactly the service's addresses of that "
                   "family lying in the subnet of one of the interface's addresses (addrsOnIntf_iff, addrsOnIntf_sublist). The model is compared "
                   "with Zeroconf::selected_intfs (called on a real Zeroconf value), IfKind::matches, resolve_addr_to_index, valid_ip_on_intf "
                   "and get_addrs_on_my_intf_v4/v6 of the working tree on every run and the theorems' conclusions are evaluated on the real "
                   "outputs. Daemon level: the monitor (MonLink.lean) computes, with that proved selection function, the enabled addresses at "
                   "every point of a real history and checks that no datagram leaves on an interface / family without one, that own addresses "
                   "are sent only inside the subnet of the interface, that addresses learned on an interface (family) that a disable call "
                   "emptied are no longer reported, and that after an interface vanished and the interface check ran nothing learned only "
                   "there is reported.",
        level_note="Trusted: Lean kernel; axioms propext, Classical.choice, Quot.sound only; hand-written model tied to the code by differential "
                   "testing of this run's inputs; IfKind::Predicate is exercised with two named predicate families shared by harness and model.",
        assumptions=[
            "IfKind::Predicate closures are represented by two named families (name prefix, index parity) defined identically in harness and model",
            "apply_intf_selections contains a textual copy of the loop of selected_intfs; only the latter is callable at component level, the former is observed at daemon level later",
        ],
    ),
    "C19": dict(
        modules=["Mdns.Props.C19"],
        model_files="Mdns/Model/Delay.lean",
        nontrivial=_c19_nontrivial,
        partial=[
            "component level only: the delay arithmetic, observed on a single undisturbed browse / hostname search of a real daemon thread in virtual time",
            "not yet covered (daemon level): at most one schedule per type/host (OneSchedule; known defect D9), exempt causes (cache refresh, resolve follow-ups, interface changes), query_rate with responders, stop/restart",
        ],
        rule="fixed cases: browse and resolve_hostname on a simulated one-interface daemon, nobody answers; the first k queries for "
             "k in {1,2,5,13,14,16} (thorough: up to 40) with the virtual clock following the daemon's requested wake-ups; 2^11 s = 2048 s "
             "is the last doubled gap below the cap, the next gaps are 3600 s. Non-trivial = at least two queries observed. Distinct = distinct op lines.",
        level_text="Component-level part of C19. Lean theorems: delay 0 = 1 s and delay (n+1) = min (2 * delay n) 3600 (delay_seq), closed form "
                   "min (2^n) 3600 (delay_closed_form), between 1 s and one hour, monotone, doubling exactly up to 2048 s and one hour from the "
                   "12th repetition on (delay_bounds, delay_mono, delay_cap); the code's u32 arithmetic never overflows along the sequence and "
                   "yields the gaps 1000 * delay i ms (gaps_spec, gaps_no_panic). The model is compared with the send times of real browse / "
                   "resolve_hostname searches of the working tree (real daemon thread, virtual clock) on every run and the closed form is evaluated "
                   "on the observed gaps. The daemon-level clauses (see coverage.partial) are not covered yet.",
        level_note="Trusted: Lean kernel; axioms propext, Classical.choice, Quot.sound only; hand-written model tied to the code by differential "
                   "testing of this run's inputs; the simulation seams of verif-hooks (virtual clock, loop gate, egress capture).",
        assumptions=[
            "Timely scheduler: the daemon is run exactly at the wake-ups it requests (the harness moves the virtual clock there)",
            "the doubling expression is inline in exec_command_browse / exec_command_resolve_hostname, so it is observed through query send times, not called",
        ],
    ),
    "C01": dict(
        modules=["Mdns.Props.C01"],
        model_files="Mdns/Model/Decode.lean",
        nontrivial=_c01_nontrivial,
        extra_evidence=_c01_extra,
        rule="every string over {00,01,3F,40,C0,0C,'a'} up to length 4 (quick) / 6 (thorough) after a query header "
             "with one question and after a response header with one answer (exhaustive); then from VERIF_SEED: "
             "uniformly random bytes (lengths 0..9000), packets from the crate's own encoder unmodified / mutated / "
             "truncated, grammar packets (arbitrary counts, RDLENGTH exact/+-1/0/65535, known and unknown types, "
             "HINFO/NSEC corner cases, pointer graphs forward/self/cyclic/into RDATA, reserved label prefixes) in a "
             "clean and a malformed stream, and 9000-byte pointer-chain amplification shapes. Each decode runs in a "
             "worker subprocess under a 4 s watchdog with catch_unwind and a counting allocator. Non-trivial = decoded "
             "message with at least one entry, or an error on a datagram with a complete header. Distinct = distinct datagrams.",
        level_text="No panic, bounded read_name loop (<= 255 iterations, <= 127 pointers), names <= 255 bytes, entry counts and "
                   "copied bytes linear in the datagram length, record spans inside the datagram and TTL 0 -> 1 are Lean theorems "
                   "for every byte array; termination is checked by Lean at definition time. The model is compared with "
                   "DnsIncoming::new of the working tree on every run and the theorems' conclusions are evaluated on the real output.",
        level_note="Trusted: Lean kernel; axioms propext, Classical.choice, Quot.sound only; hand-written model tied to the code by "
                   "differential testing of this run's inputs; wall-clock and allocation are measured (watchdog, counting allocator), not proved.",
        assumptions=[
            "wall-clock time and allocator peaks are measured on the real decoder (watchdog 4 s, peak <= 256*len + 64 KiB), "
            "not proved; the theorems bound the model's loop iterations, entry counts and copied bytes",
            "UTF-8 validation is the model's `validUtf8` (RFC 3629), compared with core::str::from_utf8 on every generated label",
        ],
    ),
    "C10": dict(
        modules=["Mdns.Props.C10"],
        model_files="Mdns/Model/Record.lean, Mdns/Model/Cache.lean",
        nontrivial=lambda r: (_sim_nontrivial(r) if r["op"].startswith("sim") else _c10_nontrivial(r)),
        extra_evidence=lambda recs: dict(_c10_extra([r for r in recs if not r["op"].startswith("sim")]),
                                         daemon_level=_sim_extra([r for r in recs if r["op"].startswith("sim")])),
        rule="ops generated from VERIF_SEED by vharness (c11.rs): `suppress mine other` for every kind of record with the "
             "responder's TTL in {120, 4500, 0, 1, 2, 3, 7, 255, 121, 4501, 60, 10, u32::MAX-1, u32::MAX} and the listed TTL in "
             "{0, 1, h-1, h, h+1, full-1, full, full+1, u32::MAX} (h = half), the other record identical / with the cache-flush "
             "bit clear / with exactly one field changed (owner, owner letter case, class, type, each RDATA field, interface); "
             "`suppress-msg`: the same against a whole query built by the crate's encoder and decoded by DnsIncoming::new; "
             "`cache-seq`: caches of shared and unique PTR/SRV/TXT/A/AAAA records asked for known answers at ages 0, 1 ms, "
             "1 s +-1 ms, half-life -1/0/+1 ms, +1 s, expiry, with update_ttl applied to every listed copy as send_query_vec does. "
             "Non-trivial = suppress with equal RDATA (TTL, class, bit or owner decide) / a decodable query / a `known` "
             "command that lists at least one answer. Distinct = distinct op lines. PLUS daemon level (`sim C10`, c07.rs generate_c10): "
             "a responder with announced services on 1-3 interfaces and 4-10 injected queries of every kind that list its records as "
             "known answers with TTLs 59/60/61 of 120 and 2249/2250/2251 of 4500, with and without the cache-flush bit, in the owner's "
             "spelling or another letter case; inside the responder model (exact correspondence) and judged by "
             "MonResponder.monitorKnownAnswers (a record listed with more than half its TTL is not sent).",
        level_text="Component level. suppress_iff (with the exact meaning of `matches` and of the integer half), its soundness for all "
                   "records, the querier's known_iff and the written-TTL bounds (no underflow under the half-life guard) are Lean "
                   "theorems for all records and caches; the model is compared with suppressed_by_answer / suppressed_by / "
                   "get_known_answers / update_ttl of the working tree on every run and the property's clauses are evaluated on "
                   "the real answers. The full responder statement C10_responder_full is proved (responder_full) since the repair of "
                   "D18 (it was refuted by a witness before). Daemon level (responder side): `sim C10` histories are inside the "
                   "responder model (handle_query with its fold over the known answers: exact correspondence) and the suppression "
                   "clause is evaluated on the real packets; the querier side (known answers listed in queries, per interface) is "
                   "covered by the client model's correspondence under C03-C05.",
        level_note="Trusted: Lean kernel; axioms propext, Classical.choice, Quot.sound only; hand-written model tied to the code by "
                   "differential testing of this run's inputs.",
        partial=["querier side: a record whose end was brought forward (flush, set_expire_sooner) is still listed from created+ttl (candidate C10-F1)"],
        assumptions=[
            "daemon level judged only in iterations that read exactly one datagram and made no API call",
            "times below 2^62 ms (no u64 wrap); TTLs are u32",
            "lower-casing of host names is modelled on ASCII only; generated names are ASCII",
            "the exact half-life millisecond (now = created + 500*ttl) and a listed TTL of exactly half are not pinned by the statement (masked in the monitor)",
        ],
    ),
    "C11": dict(
        modules=["Mdns.Props.C11"],
        model_files="Mdns/Model/Record.lean, Mdns/Model/Cache.lean",
        nontrivial=_c11_nontrivial,
        extra_evidence=_c11_extra,
        rule="ops generated from VERIF_SEED by vharness (c11.rs): `rec-life` = scripted life of one fresh record for every TTL "
             "1..600, 0, 2^k, 2^k+-1 (k=1..31), 4500, 120, u32::MAX-1, u32::MAX, created at 0 / 1 / 1000 / 2^62-1 / realistic epoch "
             "times: refresh_maybe / updated_refresh_time / is_expired / expires_soon / refresh_due / halflife_passed at every mark "
             "(50/80/85/90/95/100 %) -1/0/+1 ms, jumps over several marks, repeated observations at one instant, past expiry, "
             "random monotone and non-monotone sequences, reset_ttl by a fresh copy (TTL 0, 1, 2, same, half, random) followed by "
             "the new schedule, set_expire(_sooner), refresh_no_more, get_remaining_ttl / update_ttl around their underflow; "
             "`cache-seq` = sequences on one DnsCache: flush scenarios (1-4 older records of one name on several interfaces, "
             "ages 0..2001 ms around 1000 +-1, remaining life around 1000 +-1, then a cache-flush record, a second one of the same "
             "burst), eviction at expiry -1/0/+1 ms, refresh look-ups of a browsed service at the marks, random mixes; dumps "
             "before and after. Non-trivial = at least one refresh mark crossed / a cache-flush hit or refreshed entry / an "
             "eviction or refresh look-up that returned something. Distinct = distinct op lines.",
        level_text="Component level. expired_iff, the refresh schedule as an exact characterisation over arbitrary observation sequences "
                   "(at most four, one per mark, none at or after expiry, first at the first observation in [80 %, expiry), refresh "
                   "field = next mark), reset_restarts, the cache-flush rule of add_or_update (exactly which entries get now+1000, all "
                   "others untouched, incoming stored or refreshed) and exact eviction are Lean theorems for all records, times and "
                   "entry lists; the model is compared with the DnsRecord/DnsCache functions of the working tree on every run and the "
                   "property's clauses are evaluated on the real answers and dumps. The daemon-level clause (re-queries on the wire "
                   "while a search is open) is not covered at this level.",
        level_note="Trusted: Lean kernel; axioms propext, Classical.choice, Quot.sound only; hand-written model tied to the code by "
                   "differential testing of this run's inputs. u64 arithmetic modelled unbounded below 2^62 ms; update_ttl / "
                   "get_remaining_ttl underflow modelled as panic (overflow checks on in the harness profile).",
        assumptions=[
            "component level: which records the run loop refreshes (refresh_active_services) and the packets it sends are not part of this check",
            "times below 2^62 ms (get_expiration_time does not wrap); TTLs are u32",
            "TTL 0 -> 1 s is a property of the decoder (C01.decode_ttl0, restated as ttl0_one_second); DnsRecord::new itself keeps TTL 0",
            "evict_expired_services attributes an expired SRV to the first type domain in hash order when several type domains point to "
            "one instance: generated instances belong to one type domain each",
            "refresh_due_hosts processes host names in hash order: generated SRV host names do not differ only in letter case",
            "lower-casing modelled on ASCII only; record kind consistent with record type (as DnsIncoming produces them)",
        ],
    ),
    "C02": dict(
        modules=["Mdns.Props.C02"],
        model_files="Mdns/Model/Encode.lean",
        nontrivial=_c02_nontrivial,
        extra_evidence=_c02_extra,
        rule="messages generated from VERIF_SEED by vharness (c02.rs) and built through the crate's own add_* calls: names from "
             "label pools with shared suffixes, labels containing '.', '\\', multi-byte UTF-8 and of 1, 62, 63 bytes; PTR/SRV/TXT/A/AAAA "
             "in every section, TTLs over the whole u32 range, aged known answers (now != 0); packets filled to a small gap followed "
             "by a record that does not fit and shares name suffixes with the records after it (roll-back), first packets "
             "calibrated to 8971/8972/8973 bytes, TXT records up to 9000 bytes and up to 1500 records (totals up to 4x the limit, "
             "TC continuation for queries, break for responses), question-only messages beyond 8972 and 16384 bytes, and a "
             "malformed share (64-byte labels, empty labels, trailing backslash, names over 255 octets); plus escape / "
             "parse-escaped ops. Non-trivial = an encode case whose packets contain at least one compression pointer. "
             "Distinct = distinct op lines.",
        level_text="Lean theorems for ALL messages in the domain (names <= 255 octets, RDATA kind matching the type; labels 1..=63 bytes implied), "
                   "with compression, escaping, roll-back and TC continuation: encode_sound (an independent RFC 1035 reference reader written in "
                   "Lean parses every packet to exactly the questions and an in-order subsequence of the records that were added, field by "
                   "field with label SEQUENCES; every packet <= 8972 bytes; TC on all but the last), header_counts, tc_flags, carried_in_order, "
                   "names_invariant_writeName / names_invariant_writeRecord (compression-table invariant, exact restore on roll-back), "
                   "encode_no_panic, labels_escape (registration escaping inverted by the wire writer), parseEscaped_no_empty. The size bound and "
                   "the round trip carry the hypothesis questionsSize <= 8972, which is the known defect D17. The encoder model is compared BYTE "
                   "FOR BYTE with DnsOutgoing::to_data_on_wire of the working tree on every run; the conclusion of encode_sound in decidable form "
                   "(soundCore, theorem soundCore_holds) is evaluated with the same reference reader on the REAL packets, plus: no record left "
                   "out that would fit; the crate's own decoder agrees.",
        partial=["decode_agrees (the crate's own decoder reads the same content) is stated in Props/C02.lean as part of `C02_full` but not proved; "
                 "it is checked on the real packets of every run by the monitor clauses own-decoder-rejects / own-decoder-differs",
                 "that a left-out record did not fit is checked by the monitor (clause dropped-record-that-fits), in the model it is the "
                 "literal condition of the roll-back branch"],
        level_note="Trusted: Lean kernel; axioms propext, Classical.choice, Quot.sound only; hand-written model tied to the code by differential "
                   "testing of this run's inputs; the reference reader is the specification of 'parses back'. Records are created at a fixed "
                   "virtual time (the crate's clock seam).",
        assumptions=[
            "names are valid UTF-8 (Rust String); '.' and '\\' never occur inside a multi-byte sequence, so the crate's char loops are modelled as byte loops",
            "DnsOutgoing.multicast is always true (no code path clears it), hence the id on the wire is 0",
            "HINFO / NSEC records are outside the property's quantifier and are not generated",
        ],
    ),
    "C16": dict(
        modules=["Mdns.Props.C16"],
        model_files="Mdns/Model/Txt.lean",
        nontrivial=_c16_nontrivial,
        rule="ops generated from VERIF_SEED by vharness (c16.rs): property lists through Vec<TxtProperty>, "
             "&[(K,V)], HashMap, Option<HashMap> with key/value lengths around 0/1/254/255/256, binary values, "
             "duplicate and case-variant keys, a separate share of invalid keys; arbitrary and mutated TXT bytes "
             "for decoding; case-insensitive lookups. Non-trivial = creation accepted with at least one "
             "property / decoding yields at least one property / lookup hits. Distinct = distinct op lines.",
        level_text="Round trip, refusal of unrepresentable properties, decoder totality/in-bounds and case-insensitive first-key-wins "
                   "lookup are Lean theorems for all property lists and all byte strings; the model is compared with ServiceInfo::new/"
                   "encode_txt/decode_txt/decode_txt_unique/TxtProperties::get of the working tree on every run and the theorems' "
                   "conclusions are evaluated on the real outputs.",
        level_note="Trusted: Lean kernel; axioms propext, Classical.choice, Quot.sound only; the hand-written model is tied to the code by "
                   "differential testing of this run's generated inputs (not by proof); lower-casing modelled on ASCII; HashMap "
                   "storage order read from the implementation.",
        assumptions=[
            "lower-casing is modelled on ASCII only; decode_txt_unique is compared only on inputs whose keys are ASCII",
            "the storage order of HashMap inputs is read from the implementation (hash seed is an environment input)",
        ],
    ),
}

CONFIG["C13"] = dict(
    modules=["Mdns.Props.C13"],
    model_files="Mdns/Model/Sched.lean, Mdns/Model/Client.lean",
    nontrivial=_sim_nontrivial,
    extra_evidence=_sim_extra,
    rule="histories on real daemon threads under the simulation seams, from VERIF_SEED (harness/src/c13.rs, scen.rs): one "
         "third on a silent network (browse / browse again / browse_cache / stop / resolve_hostname with time-outs and mixed "
         "case / stop_resolve_hostname at times around the retransmission marks, horizons up to days; predicted exactly by "
         "the scheduler model), two thirds with one or two real responder daemons on the same simulated link (register, "
         "unregister, browse, stop, resolve, shutdown, packet loss/duplication). Non-trivial = at least one packet and one "
         "client event. Distinct = distinct scripts.",
    level_text="On the scheduler model (exact on responder-free histories, compared with the real daemon every run): the stop "
               "contract (SearchStopped once on the right channel, search and queue entries forgotten), no query for a type "
               "after its stop in ANY later history until it is browsed again (no_query_after_stop, by induction over "
               "iterations), the time-out contract (SearchTimeout then SearchStopped, late retransmission is a no-op), "
               "cache-only browses are silent, SearchStarted first - Lean theorems. The monitor ok_C13 evaluates the channel "
               "protocol (first event, Found before Resolved, SearchStopped once and last, at stop / time-out / shutdown), "
               "absence of queries after a stop and the cache-only clause on every real history, including those with "
               "responders that the model does not cover. On the CLIENT model (Client.iter, compared with the real daemon per iteration; any times, packets, commands): "
               "every_output_has_a_cause (Client.Origin: each event goes to the channel of a browse / hostname search / queued re-run "
               "of the state or of a command; each query shape has its cause); silent_for_ever (a channel nobody uses - ChanFree - "
               "gets no event in ANY later history until a command gives it to a new search); first_event_started_browse / _resolve; "
               "browse_owns_channel / resolve_owns_channel, onlyBrowse_iter / onlyHost_iter (a search started on a free channel is "
               "its only user); stop_browse_final / stop_resolve_final (the stop emits exactly SearchStopped, nothing on the channel "
               "in the rest of that iteration, channel free afterwards: SearchStopped last and once; host name in any letter case); "
               "no_ptr_query_after_stop + stop_browse_gone (no PTR question for the type in any later history until browsed again); "
               "no_host_query_after_stop (no A+AAAA / single A or AAAA question for the name, for a daemon without browse work); "
               "cache-only browsing (the statement D23 violated, proved since refresh_active_services skips cache-only types): "
               "cache_only_iteration_quiet (every state, every input: an iteration asks no PTR question for a type that is browsed "
               "cache-only), no_ptr_query_while_cache_only (any later history until browse / browse_cache / stop_browse of the type), "
               "browse_cache_quiet (the command emits events only and leaves the type quiet, also when it replaces a browse), "
               "refresh_only_for_active + cache_only_refresh_silent (every query of the refresh phase - PTR, SRV/TXT, A/AAAA - is sent "
               "for a type that is browsed and not cache-only; none when every browse is cache-only); cache_only_daemon_silent (every "
               "state in which every browse is cache-only, no hostname search is open and nothing is queued; any datagrams; commands "
               "browse_cache / stop / metrics / options: the iteration sends NO query of any shape - no refresh, no follow-up for an "
               "instance whose PTR came without SRV or address, D23b - and the state stays such a state), cache_only_daemon_silent_run, "
               "cache_only_history_silent (from the fresh daemon: 'a cache-only browse never sends a query'); "
               "delays_ok_run. Whole-history capstones from the fresh daemon: browse_channel_lifecycle, resolve_channel_lifecycle "
               "(nothing on the channel before the call, SearchStarted first, SearchStopped at the stop and nothing after, nothing "
               "ever after), timeout_channel_lifecycle + timeout_ends_for_good + stale_silent_for_ever (SearchTimeout then "
               "SearchStopped at the first iteration at/after the deadline, nothing after; the retransmission left queued is inert "
               "and is purged by a new search of the name).",
    level_note="Trusted: Lean kernel; allowed axioms only; hand model tied to the code by differential comparison of whole "
               "histories; simulation seams. Histories with responders are decided by the monitor only (no model prediction); "
               "'forgets the records it cached' is checked through a later browse of the same type in the same history, not "
               "through metrics.",
    partial=["Found-before-Resolved and the shutdown clause are monitor-only",
             "cache-only browsing: the all-queries statement (cache_only_daemon_silent) is about a daemon WITHOUT any active browse, "
             "hostname search or verify; when a type is browsed actively, an instance that a cache-only browse also sees (e.g. "
             "through another PTR name) is followed up and refreshed on behalf of the active browse - per type only "
             "no_ptr_query_while_cache_only / refresh_only_for_active hold; re-runs left queued by an earlier active search are "
             "excluded by hypothesis",
             "no_host_query_after_stop assumes a daemon without browse work (A/AAAA questions for the host of a browsed service are "
             "legitimate and have the same shape)"],
    assumptions=["event receivers stay alive", "address queries for a host are attributed to the stopped hostname search only when the daemon has no browse in the history"],
)

CONFIG["C12"] = dict(
    modules=["Mdns.Props.C12"],
    model_files="Mdns/Model/Sched.lean, Mdns/Model/Client.lean, Mdns/Model/Responder.lean",
    nontrivial=_sim_nontrivial,
    extra_evidence=_sim_extra,
    rule="(a) responder-free histories as in C19/C13: the model's requested wake-up is compared with the real daemon's at "
         "every loop iteration (interface-check interval default / large / zero / changed at run time); (b) `sim2` histories "
         "with one or two real responder daemons, registrations, unregistrations, browses, hostname resolutions with "
         "time-outs, verify requests, shutdowns and interface changes, each executed twice on real daemon threads: "
         "event-driven (a daemon runs only at the wake-up it requested or when input arrives) and polled every 50 ms. "
         "Non-trivial = at least one packet and one client event. Distinct = distinct scripts.",
    level_text="Lost wake-ups are decided by comparing two executions of the same history on the real code: any packet or "
               "event that polling makes happen earlier (or at all) than in the event-driven run is time-driven work the "
               "daemon had not asked to be woken for. Spinning is decided on the event-driven trace (more than 5 idle "
               "iterations at one instant that again ask for a wake-up at or before it, or a runaway). On the scheduler "
               "model: every queued retransmission and resolver deadline has a timer no later than its due time, the "
               "requested wake-up is the minimum of the timers, passed timers are consumed, and the interface check never "
               "re-arms at `now` (interval 0 = disabled) - Lean theorems; the model's wake-up equals the real one on every "
               "iteration of the responder-free histories. On the CLIENT model (Client.iter, whose wake-up is compared with the real daemon's at every iteration of every "
               "client history): the invariant TimersCover - for EVERY cached entry the expiry instant and the refresh mark (while "
               "before the expiry) is a timer, every queued re-run (browse / resolve_hostname retransmission, follow-up resolve, "
               "verify resend), every hostname-search deadline and the interface check has a timer - is preserved by iter for every "
               "input (timersCover_iter), holds after every history from the fresh daemon (timersCover_always), hence "
               "wake_never_late(_run): the requested wake-up is no later than any due work after the last iteration; "
               "expiry_after_last, old_timers_popped; on_time_nothing_expired (an iteration not later than the requested wake-up "
               "finds no cached entry that ran out before now). On the RESPONDER model (Responder.iter, whose wake-up is compared with the "
               "real daemon's at every iteration of every responder history): the invariant RTimersCover - the next_send of EVERY "
               "probe in every interface registry (however it got there: registration, re-registration, joining record, lost "
               "tiebreak, conflict rename / update_hostname, wake-up of a waiting service), every queued RegisterResend / "
               "UnregisterResend (goodbye repeat per interface AND family: goodbye_repeat_armed) and the interface check is a timer, "
               "and no registry keeps un-armed new_timers - holds for the fresh daemon, is preserved by iter for EVERY input with no "
               "side condition (rTimersCover_iter), hence responder_wake_never_late after every history; the full statement holds "
               "of the model (no witness against it). Never spinning, responder model: an iteration without input and without "
               "due work sends nothing and leaves every timer after now (idle_iteration_sleeps); after ANY iteration from ANY "
               "state at most one further input-free iteration at the same instant has something to do, then every timer lies "
               "after now (responder_no_spin, after_iteration_quiet).",
    level_note="Trusted: Lean kernel; allowed axioms only; simulation seams (the gate replaces the blocking poll, so the 1 ms "
               "floor of the real poll time-out is not exercised). The two-scheduler comparison is an oracle on the real "
               "code, not a theorem; it covers histories that mix client and responder work in one daemon, which no single "
               "model fragment does (the client and the responder invariants are proved per fragment).",
    partial=["there is no single daemon model: TimersCover (client fragment) and RTimersCover (responder fragment) are proved "
             "separately, a daemon that browses and registers at once is covered by the two-scheduler oracle only; a no-spin "
             "bound for the client model (refresh marks being caught up on a late iteration) is not proved, the "
             "scheduler-fragment statements are"],
    assumptions=["one `now` per loop iteration", "hash-order dependent tie-breaks may make the two executions diverge; packet content is compared canonically (sorted, without TTLs)"],
)

CONFIG["C17"] = dict(
    modules=["Mdns.Props.C17"],
    model_files="Mdns/Model/Client.lean, Mdns/Model/Sched.lean, Mdns/Model/Cache.lean",
    nontrivial=_sim_nontrivial,
    extra_evidence=_sim_extra,
    rule="histories on real daemon threads under the simulation seams, from VERIF_SEED (harness/src/c17.rs, scen.rs): three "
         "quarters with a scripted responder (crafted A/AAAA/SRV/TXT/PTR packets: several addresses per host, IPv4 and IPv6, "
         "TTLs 1..4500 s, cache-flush updates, goodbyes, letter-case variants of the host name on the caller and responder "
         "side, time-outs 1.5 s..200 s, verify requests), one quarter with real responder daemons (register / unregister / "
         "shutdown). Non-trivial = at least one packet and one client event. Distinct = distinct scripts.",
    level_text="On the client model (Client.iter, compared with the real daemon per iteration): hfound_sound / hremoved_sound over "
               "whole histories from the fresh daemon, in terms of delivered records (each listed address from a delivered A/AAAA "
               "record of exactly that owner name, on the interface it arrived on, for a resolve_hostname call on that channel, "
               "letter case ignored; for AddressesFound the lifetime ends after the instant of the event, however late the "
               "iteration comes; for AddressesRemoved the record ran out in this very iteration); hfound_unexpired (every state, "
               "every input: each listed address belongs to a cache record not expired at now, never an empty list - the "
               "statement D44 violated, proved since get_addresses_for_host filters expired records), hfound_unexpired_full_holds; "
               "hfound_lists_all, hremoved_exact (cache-level exactness); hfound_complete(_first) (a new or revived address of a "
               "searched host in a packet taken in is reported in that handle_response); resolve_starts_client, "
               "resolve_first_rerun, resolve_rerun_open/closed, timeout_contract_client, timeout_only_when_due (A+AAAA at once, "
               "doubling, cut at the deadline, SearchTimeout then SearchStopped); refresh_while_open, refresh_timer_armed. "
               "D44_regression is the former counterexample (a late iteration) on the repaired model. The monitor ok_C17 decides "
               "the same clauses on every real history from the delivered records (unexpired strictly, the expiry millisecond "
               "included); the older theorems on the scheduler fragment are kept.",
    level_note="Trusted: Lean kernel; allowed axioms only; simulation seams; the address-event clauses are decided by an oracle "
               "computed from the delivered records (record identity includes the cache-flush bit, as in the daemon), not by a "
               "model prediction.",
    partial=["completeness is a step contract (per handle_response; for records with TTL >= 1, which is what the decoder "
             "delivers), not an invariant over histories"],
    assumptions=["event receivers stay alive", "histories with verify requests are not judged for AddressesRemoved (verify shortens lifetimes)"],
)

CONFIG["C20"] = dict(
    modules=["Mdns.Props.C20"],
    model_files="Mdns/Model/Client.lean, Mdns/Model/Cache.lean, Mdns/Model/Sched.lean",
    nontrivial=_sim_nontrivial,
    extra_evidence=_sim_extra,
    rule="client histories with a scripted responder (harness/src/c17.rs generate_c20): announcements, partial record sets "
         "without PTR, foreign types and foreign PTR-less records, goodbyes, TTLs 1..4500 s, browses and hostname searches "
         "started and stopped, get_metrics readings along the way and after tails of 20 s .. 5000 s (beyond every TTL and "
         "beyond the one-hour life of a cancelled retransmission timer). Non-trivial = at least one packet and one client "
         "event. Distinct = distinct scripts.",
    level_text="On the client model (Client.iter, compared with the real daemon per iteration incl. the metrics), whole histories "
               "from the fresh daemon: cache_bounded (every cached entry is the copy of a delivered record whose lifetime was not "
               "over at the last iteration, filed under its own name), drained_cache (once the lifetime of every delivered record "
               "is over an iteration leaves all five tables empty, counters 0 - searches open or not), timers_bounded (every "
               "pending timer is the interface check or lies within the horizon of the history: last iteration + 1 h, end of a "
               "delivered lifetime, a deadline given with resolve_hostname / verify), drained_run (nothing browsed, nothing "
               "queued, then any input-free iterations: the first iteration at or after the horizon leaves an empty cache and no "
               "timer but the interface check), quiet_iter. On the cache model: drained, evict_only_removes; scheduler fragment: "
               "idle_arms_nothing. The monitor ok_C20 reads the daemon's own metrics on real histories.",
    level_note="Trusted: Lean kernel; allowed axioms only; simulation seams; the daemon-level clauses are decided by the monitor "
               "on metrics, not by a model prediction. Keys left empty in the maps of records the cache declines are not visible "
               "in the metrics and not judged.",
    partial=["`bounded` by what the active searches NEED is monitor-only; the acceptance rule for PTR-less packets makes it false of "
             "the code (known finding D25); cache_bounded bounds the cache by what was DELIVERED and is still live",
             "the `subtype` map is never pruned (not a table of records; not covered by drained_* / cache_size_bounded)"],
    assumptions=["metrics are the observable (as the statement says)"],
)

def _c14_nontrivial(r):
    if r["op"].startswith("stress-"):
        return r["impl"].startswith("ok")
    return _sim_nontrivial(r)


def _c14_extra(recs):
    import re as _re
    e = _sim_extra([r for r in recs if r["op"].startswith("sim")])
    tot = dict(calls=0, values=0, closed=0, blocked=0, panics=0)
    runs = 0
    for r in recs:
        if r["op"].startswith("stress-"):
            runs += 1
            for k in tot:
                m = _re.search(r"\b%s=(\d+)" % k, r.get("meas", ""))
                if m:
                    tot[k] += int(m.group(1))
    e.update(real_thread_runs=runs, real_thread_calls=tot["calls"], real_thread_replies_with_value=tot["values"],
             real_thread_replies_closed=tot["closed"], real_thread_blocked=tot["blocked"], real_thread_panics=tot["panics"])
    return e


CONFIG["C14"] = dict(
    modules=["Mdns.Props.C14"],
    model_files="Mdns/Model/Shutdown.lean",
    nontrivial=_c14_nontrivial,
    extra_evidence=_c14_extra,
    rule="(a) `sim C14` bursts on real daemon threads under the simulation seams: a responder daemon with 2-5 registered "
         "services (probing / announced), browses and a hostname resolution of its own, then a queue of 0-4 commands "
         "(get_metrics, status, unregister known/unknown, browse, resolve_hostname, stop_browse, monitor, verify, register, a "
         "second shutdown) with the shutdown at every position (quick: first, last and sampled middle positions; thorough: all), "
         "processed in ONE loop iteration, followed by calls of every kind on the handle of the daemon that is gone; "
         "(b) `stress-shutdown` runs on REAL threads without simulation: 2-6 client threads x 20-50 random calls while another "
         "thread shuts down, a 4 s watchdog on every reply receiver and a 12 s watchdog on every thread. Non-trivial = sim "
         "history with packets and events / stress run completed. Distinct = distinct scripts / seeds.",
    level_text="Queue model (every queue, every position of the shutdown): shutdown_contract (commands in front executed; goodbye "
               "for every registered service; SearchStopped on every open search; every command behind has its reply channel "
               "closed; Shutdown to the caller; thread ends), every_reply_settled, cleanup_once, running_loop_never_ends, "
               "calls_after_end are Lean theorems. The monitor evaluates exactly these conclusions on the real traces of the "
               "bursts (goodbye packets decoded from the wire, channel values / closures, results of calls after the end) and "
               "no-panic / no-blocked / nothing-succeeds-after-Shutdown on the real-thread runs.",
    level_note="Trusted: Lean kernel; allowed axioms only; simulation seams. PARTIAL BY NATURE: OS-thread interleavings, the flume "
               "channel and blocking recv are runtime behaviour the model cannot exhibit; the real-thread runs are stress tests "
               "(support, not proof). A residual window of a few instructions between the drain of the queue and the drop of the "
               "receiver remains in the repaired code (a command enqueued exactly there is never answered nor closed).",
    partial=["the queue model is compared with the code through the monitor's clauses on the bursts, not by a full prediction of the trace",
             "real-thread clause: stress runs only"],
    assumptions=["services count as announced when the daemon's own Announce event was seen"],
)

def _c15_nontrivial(r):
    if r["op"].startswith("sim"):
        return _sim_nontrivial(r)
    return True


def _c15_extra(recs):
    sims = [r for r in recs if r["op"].startswith("sim")]
    calls = [r for r in recs if r["op"].startswith("c15-call")]
    d = _sim_extra(sims)
    kinds = {}
    for r in calls:
        k = r["op"].split(" ")[1] + ":" + r["impl"].split(" ")[0]
        kinds[k] = kinds.get(k, 0) + 1
    cut = sum(1 for r in calls if " cut-label " in r["op"] and len(r["op"].split(" ")[2]) // 2 + 1 != len(r["impl"].split(" ")[-1]) // 2)
    d.update(function_calls=len(calls), function_call_outcomes=kinds, labels_actually_cut=cut,
             rename_events_observed=sum(r["impl"].count(" namechange ") for r in sims),
             error_events_observed=sum(r["impl"].count(" error ") for r in sims),
             api_calls_refused=sum(r["impl"].count(" msg ") + r["impl"].count(" err") for r in sims))
    return d


CONFIG["C15"] = dict(
    modules=["Mdns.Props.C15"],
    model_files="Mdns/Model/Names.lean, Mdns/Model/Label.lean (functions); Mdns/Driver/C15.lean (verdict on histories)",
    nontrivial=_c15_nontrivial,
    extra_evidence=_c15_extra,
    rule="(a) `c15-call`: the four name checks, name_change / hostname_change, split_sub_domain, the escaped-name parser and the "
         "label writer of the encoder (DnsOutPacket::write_utf8, reached through an encoded question) called in-process on "
         "hostile strings: empty, 63/64/255-byte labels, lengths 60..70 and 250..260, 1-4-byte UTF-8 characters astride the 63 "
         "byte limit, dots, backslashes, parentheses, counters 4294967294 / 4294967295 / 99999999999, doubled and missing "
         "suffixes - output compared with the Lean model of each function; (b) `sim C15` histories on real daemon threads "
         "under the simulation seams: every public function (browse, browse_cache, resolve_hostname with huge time-outs, "
         "register with hostile type / instance / host / TXT up to 70 kB / addresses, unregister, stop_*, verify, "
         "set_ip_check_interval, set_service_name_len_max, enable/disable_interface, accept_unsolicited, monitor) with hostile "
         "arguments followed by up to 10 min of virtual time; hostile packets (random bytes, mutated well-formed responses, "
         "labels ending in a backslash or containing dots, 63-byte labels that grow when re-read, pointer tricks, 9000-byte "
         "datagrams, answers for names the daemon browses / resolves / has registered) against a daemon with active browses, "
         "resolvers and registrations; conflicts that force renames of instances and hosts with 59..63-byte first labels, "
         "names of 250..255 bytes and counters next to u32::MAX. Every history ends with status() and get_metrics(). "
         "Non-trivial = call executed / history with packets and events. Distinct = distinct op lines.",
    level_text="Function level: checks_never_panic, rename_chain_total (any number of renames of any string return a name), "
               "cutLen_le / cutLen_boundary / writeUtf8_shape / short_label_unchanged / cut_loses_at_most_three (the label "
               "writer emits <= 63 bytes, stops at a character boundary, never underflows) are Lean theorems about models with "
               "an explicit panic outcome at every index, slice, arithmetic and assert of the Rust; the models are compared "
               "with the code on every generated string. Daemon level: monitorCrash_none_iff proves that the verdict function "
               "accepts a history exactly when no calling thread panicked, no daemon thread ended unasked and status / "
               "get_metrics were answered after the input; the verdict is evaluated in Lean on the observations of the real "
               "threads (panics of API calls are caught per call in the harness, the end of a daemon thread is observed by "
               "the simulation driver). The decoder half (no packet panics or loops DnsIncoming::new) is C01's theorems.",
    level_note="Trusted: Lean kernel; allowed axioms only; hand-written function models tied by differential comparison; simulation "
               "seams; panic = Rust unwind observed by catch_unwind / thread join (an abort would kill the worker and be "
               "reported as a crash of the op). PARTIAL: the daemon as a whole has no panic-free theorem - Lean proves the "
               "functions listed; for everything else in service_daemon.rs the property is decided by monitoring generated "
               "histories, which is a search, not a proof.",
    partial=["daemon-level clause decided by the verdict function on generated histories (no model of the whole daemon with panic outcomes)",
             "ServiceInfo::new / AsIpAddrs / TXT conversions: exercised through register histories and C16's model, no separate no-panic theorem here"],
    assumptions=["a caller panic is a Rust unwind (catch_unwind); allocation failure aborts are outside the property"],
)

# C19 = component level (delay arithmetic, `backoff` ops) + daemon level (scheduler model, `sim` histories)
_c19_comp = CONFIG["C19"]
CONFIG["C19"] = dict(
    modules=_c19_comp["modules"] + _C19_DAEMON["modules"],
    model_files=_c19_comp["model_files"] + ", " + _C19_DAEMON["model_files"],
    nontrivial=lambda r: (_sim_nontrivial(r) if r["op"].startswith("sim") else _c19_comp["nontrivial"](r)),
    extra_evidence=_sim_extra,
    rule=_C19_DAEMON["rule"] + " PLUS component level: " + _c19_comp["rule"],
    level_text=_C19_DAEMON["level_text"] + " Component level: " + _c19_comp["level_text"],
    level_note=_C19_DAEMON["level_note"],
    partial=_C19_DAEMON["partial"],
    assumptions=_C19_DAEMON["assumptions"] + _c19_comp["assumptions"],
)


_CLIENT_RULE = ("histories on real daemon threads under the simulation seams, from VERIF_SEED (harness/src/c03.rs gen_client, "
                "scen.rs gen_scripted): ONE client daemon (1-2 interfaces, IPv4 / IPv4+IPv6) and a scripted responder - crafted "
                "response datagrams: whole announcements (PTR as answer, the rest as additional / authority / answers), record "
                "sets partitioned over 2-4 packets in any order with duplicates and arriving on different links, PTR only "
                "(follow-ups answered after 1, 2, 3 tries or never), updates with and without cache-flush, goodbyes of all or "
                "part of the set (duplicated, re-announced within the second), foreign PTRs alone / with OUR records as "
                "additionals / next to ours, subtype PTR names, address owners in another letter case, PTR with the flush bit, "
                "instances sharing a host or a type, NSEC / HINFO, injected queries, truncated datagrams, datagrams on an "
                "interface or family the daemon does not have; TTLs 1..4500 s; browse / browse_cache / stop / resolve_hostname "
                "with time-outs / stop / verify 1..10000 ms / accept_unsolicited / get_metrics at times around 500, 1000 ms and "
                "the refresh marks; tails 3 s .. 5000 s. Every history is inside the fragment the client model predicts EXACTLY: "
                "per loop iteration the queries with their known answers (content and written TTL), every event on every channel "
                "with its full payload, the cache-size and timer metrics and the requested wake-up are compared. Non-trivial = at "
                "least one packet and one client event. Distinct = distinct scripts.")
_CLIENT_NOTE = ("Trusted: Lean kernel; allowed axioms only; the hand-written client model (Mdns/Model/Client.lean on top of the cache, "
                "record and wire models) is tied to the code by differential comparison of whole histories on this run's inputs; "
                "simulation seams. Canonical comparison: packets of one iteration as a multiset; events in order per channel and "
                "subject (instance / host spelling), events about different instances on one channel as a multiset (the code walks "
                "hash sets there); question names in lower case.")
_CLIENT_ASSUME = ["one `now` per loop iteration", "event receivers stay alive", "lower-casing modelled on ASCII",
                  "an instance is advertised under one PTR name per history; SRV targets of one history do not differ only in "
                  "letter case; instance labels contain no backslash (hash-order dependent behaviour / escaping finding kept out "
                  "of the compared histories)",
                  "u64 time arithmetic does not wrap (times below 2^62)"]

CONFIG["C03"] = dict(
    modules=["Mdns.Props.C03"],
    model_files="Mdns/Model/Client.lean, Mdns/Model/Cache.lean, Mdns/Model/Record.lean, Mdns/Model/Decode.lean",
    nontrivial=_sim_nontrivial,
    extra_evidence=_sim_extra,
    rule=_CLIENT_RULE,
    level_text="Lean theorems on the client model, for ANY history of iterations (no timeliness assumption): the provenance "
               "invariant CacheProv (every cache entry is justified by a delivered record of the same owner/type/class/flush "
               "bit/RDATA - for addresses including the interface -, created at its delivery time, with its TTL (0 stored as "
               "1), expiring no later than that TTL allows, filed under its own name) is preserved by every phase of the loop; "
               "resolved_sound / resolved_from_received: every ServiceResolved emitted at `now` has host and port from a "
               "delivered SRV record of that instance, every address from a delivered A/AAAA record of that host tagged with "
               "exactly the interfaces of the usable entries, TXT from a delivered TXT record or empty, each with now + 1 s < "
               "delivery + TTL, and a non-empty host and address set; corollaries: a goodbye'd record, a record past its TTL "
               "and an entry displaced by a cache-flush are never used. The model is compared exactly with the real daemon on "
               "every generated history; the monitor ok_C03 recomputes liveness from the delivered records on the real trace.",
    level_note=_CLIENT_NOTE,
    partial=["the decoded-packet input of the model is tied to the bytes by the wire model (C01 correspondence), composed in the driver only"],
    assumptions=_CLIENT_ASSUME,
)

# ------------------------------------------------------------------- C07 / C09 / C06
# responder side of the daemon: single-daemon histories predicted exactly by
# lean/Mdns/Model/Responder.lean (harness/src/c07.rs, lean/Mdns/Driver/SimResponder.lean)

_RESP_MODEL = "Mdns/Model/Responder.lean (+ Model/Decode, Compare, Names, Intf, Txt), Driver/SimResponder.lean"
_RESP_TRUST = ("Trusted: Lean kernel; allowed axioms only; hand model tied to the code by differential comparison of whole "
               "histories on real daemon threads under the simulation seams (virtual clock, simulated interfaces, captured "
               "egress, injected ingress, per-iteration gate, fixed jitter); per loop iteration the multiset of packets "
               "(interface, family, destination, id, flags, sorted questions, per section the sorted records with class, "
               "cache-flush bit, raw TTL and RDATA in exact letter case, the real bytes decoded by the Lean wire decoder), the "
               "multiset of monitor events / unregister replies / shutdown reply and the requested wake-up are compared. ")
_RESP_ASSUME = [
    "one `now` per loop iteration; both sockets (IPv4, IPv6) exist; no socket error; every message fits one datagram",
    "to_lowercase is ASCII lower-casing (non-ASCII upper-case letters are outside the modelled domain)",
    "no conflicting RESPONSE in the invariant theorems (conflict_handler is modelled and compared, but renames are excluded "
    "from the StatusSound invariant); injected responses carry a PTR answer (otherwise the daemon caches them: cache part "
    "of the daemon is the client model's)",
    "hash order: records inside a section, packets and events inside one iteration are compared as multisets; the name in "
    "an Announce(name, host:intf) event is compared lower-cased; histories with competing probe queries (tiebreaking) have "
    "no two records of one type in a probe (the insert position of Probe::insert_record among equal keys is an unspecified "
    "binary_search result)",
    "event receivers stay alive; the interface table is constant (no interface changes, addr_auto only at registration)",
]


def _resp_extra(recs):
    d = _sim_extra(recs)
    d.update(
        announce_events=sum(r["impl"].count(" announce ") for r in recs),
        namechange_events=sum(r["impl"].count(" namechange ") for r in recs),
        respond_events=sum(r["impl"].count(" respond ") for r in recs),
        unregister_ok=sum(r["impl"].count(" unreg ok") for r in recs),
        unregister_notfound=sum(r["impl"].count(" unreg notfound") for r in recs),
        datagrams_injected=sum(r["impl"].count(" rx ") + (1 if r["impl"].startswith("rx ") else 0) for r in recs),
        unicast_replies=len([1 for r in recs for it in r["impl"].split(" ; ")
                             if it.startswith("tx ") and it.split(" ")[4] != "m"]),
        packets_ipv6=len([1 for r in recs for it in r["impl"].split(" ; ") if it.startswith("tx ") and it.split(" ")[3] == "0"]),
        histories_two_interfaces=sum(1 for r in recs if " 3 192.168.2.10 24" in r["op"]),
        daemon_shutdowns=sum(r["impl"].count(" status shutdown") for r in recs),
    )
    return d


CONFIG["C07"] = dict(
    modules=["Mdns.Props.C07"],
    model_files=_RESP_MODEL,
    nontrivial=lambda r: " announce " in r["impl"] and " tx " in r["impl"],
    extra_evidence=_resp_extra,
    gen_timeout=3000,
    rule="histories of ONE real daemon thread under the simulation seams, from VERIF_SEED (harness/src/c07.rs): (a) the life "
         "cycle of a registration under each start jitter (quick: 0,7,14,..,245 and 1,248,249; thorough: every value 0..249) "
         "followed by 1-3 more actions; (b) mixed histories: 1-3 services (with/without subtype, requires_probe on/off, "
         "shared host names, same name in another letter case, escaped dots, UTF-8, 1-6 addresses in/off the subnets, "
         "addr_auto), re-registration with changed port/TXT/address/case/host, unregister, injected queries, competing probe "
         "queries (tiebreaking), conflicting responses (renames), a clock that jumps (late iterations), shutdown - on one "
         "IPv4 interface, a dual-stack interface, two interfaces on different subnets, at pauses of 0,1,60,119..121,249..251,"
         "499..501,749..751,999..1001,1749..1751 ms and longer. Non-trivial = at least one packet and one Announce event. "
         "Distinct = distinct scripts.",
    level_text="On the responder model (exact on these histories: every packet with time, interface, family and full content, "
               "every monitor event and the requested wake-up are compared with the real daemon on every run) - Lean theorems: "
               "for ANY history of loop iterations without a conflicting response, a service that requires probing is "
               "Announced on an interface only if all its unique records (SRV, TXT, addresses of a family) are active there "
               "(announced_records_active, an invariant proved through every phase of the loop); records become active only "
               "through a probe at least 750 ms old; an announcement is built only from active records and carries PTR, subtype "
               "PTR, SRV, TXT, addresses as answers; nothing is answered for services that are not Announced; under a timely "
               "scheduler a probe sends at exactly T, T+250, T+500 and ends at T+750 whatever else happens in between "
               "(probe_timeline), each query asking ANY for the name with all the probe's records as authorities; the same "
               "schedule INSIDE the daemon loop for any daemon state with a fresh probe of a name on an interface - other "
               "probes, services, interfaces, queued re-runs arbitrary, idle iterations at T, T+250, T+500, T+750 and any "
               "others in between: the probe query for the name leaves on that interface (every family) in exactly the "
               "iterations at T, T+250, T+500 and the probe's records are active after T+750 (probe_schedule_in_daemon, "
               "probe_query_in_daemon); from the registration on, for ANY running daemon state: register(svc) at t0 under "
               "jitter j creates, for every unique record the daemon does not hold, the probe of its name with start t0+j "
               "(registration_starts_probe), and with j >= 1 and a timely scheduler the probe queries for that name leave in "
               "exactly the iterations at t0+j, +250, +500 and the record is active after t0+j+750 "
               "(registration_probe_lifecycle), and the announcement leaves in the iteration at t0+j+750 and again in the one at "
               "t0+j+1750 (registration_announced_twice, any service none of whose unique records is held, any daemon state); "
               "after "
               "prepare_announce every unique record is active or in the probe of its name; a new probe starts at now+jitter; "
               "and the complete life cycle (three probes, nothing before, announcements at +750 and +1750 with the stated "
               "content) by kernel evaluation of the model for EVERY jitter 0..249 on a concrete registration and for a spread "
               "of jitters on a dual-stack interface with a mixed-case name and a subtype.",
    level_note=_RESP_TRUST + "The general life-cycle statement (every service, interface, start time) is kept as "
               "`probe_lifecycle_full : Prop`; proved are its general building blocks and the exhaustive-jitter instances.",
    partial=["probe_lifecycle_full (arbitrary service data, interface and start time) is not proved as one theorem; proved: "
             "probe_timeline, probe_query_content, registration_probes_every_record, registration_probe_times, "
             "probe_end_activates_records, probe_schedule_in_daemon (one probe through iter, any state), "
             "announcement_needs_active, announced_records_active and the evaluated instances (probe_lifecycle_partial); "
             "registration_starts_probe, registration_probe_lifecycle (registration -> three probes -> record active, any "
             "state), first_announcement / second_announcement (step contracts), registration_announced_twice (any service, "
             "any daemon state, jitter >= 1: announcement in the iteration at t0+j+750 and again at t0+j+1750); missing for "
             "the literal probe_lifecycle_full: jitter 0 in the composed theorem, 'exactly these packets and no others' "
             "for a symbolic service (shown on the evaluated instances)",
             "the history invariant 'an active record was in the authority section of three probe queries 250 ms apart' was "
             "false of the code without a timely scheduler and for shared probes (D31, D33, D34 - all three repaired); "
             "proved now, for a probe on its own at ANY instants of the loop: three_probes_whatever_the_scheduler, "
             "three_probes_after_restart, joining_record_restarts_probe, active_only_after_probe (750 ms old AND three "
             "queries sent); not composed into one history invariant over the whole daemon (re-registration, D32, is open)",
             "bounded time to the announced state is shown on the evaluated life cycles only (t0 + jitter + 750 ms)"],
    assumptions=_RESP_ASSUME,
)

CONFIG["C09"] = dict(
    modules=["Mdns.Props.C09"],
    model_files=_RESP_MODEL,
    nontrivial=lambda r: " unreg " in r["impl"] or " status shutdown" in r["impl"],
    extra_evidence=_resp_extra,
    gen_timeout=3000,
    rule="histories of ONE real daemon thread (harness/src/c07.rs, generate_c09): register / re-register / unregister (exact, "
         "upper-case, lower-case, unknown names) / shutdown sequences over 1-3 services on 1-2 interfaces and both families, "
         "unregister before, during and after probing and between the two announcements, at pauses around 120, 250, 750, "
         "1000 ms; queries after the unregister; occasionally conflicting responses. Non-trivial = at least one unregister "
         "reply or a shutdown. Distinct = distinct scripts.",
    level_text="On the responder model (exact on these histories, compared with the real daemon every run) - Lean theorems: "
               "unregister answers OK exactly when the lower-cased name is registered, NotFound (and nothing else) otherwise; "
               "on OK exactly one goodbye packet per interface on which the service is Announced and family in which it has an "
               "in-subnet address there - and none elsewhere (goodbye_only_where_announced, goodbye_where_announced; the "
               "statement's 'only where the service was announced' holds since the repair of D30, the witness of its former "
               "negation is a regression example and a corpus case): PTR, "
               "subtype PTR, SRV, TXT, those addresses, every record TTL 0, id 0; each packet queued once more for +120 ms with "
               "the same content and a timer armed; the repeat sends the very same packet; the unregistered service is taken "
               "out of the probes it waited for, and a probe nobody else waits for is dropped (unregister_leaves_probes); "
               "shutdown does the same for every "
               "service and forgets everything; afterwards the name is not registered, other services are untouched, the "
               "queued second announcement is a no-op and queries are answered from the remaining services only.",
    level_note=_RESP_TRUST + "The goodbye always carries the names as registered; after a rename by conflict resolution that "
               "is the wrong name (D21, recorded under C08).",
    partial=["'Announced' is the per-interface status of the CURRENT registration: it is set when either family was announced "
             "(D32) and starts over at a re-registration (D40) - with these two known findings 'where announced' differs from "
             "'where some packet announced it'",
             "'under the names most recently announced' is not claimed (original names are used, D21)"],
    assumptions=_RESP_ASSUME,
)

CONFIG["C06"] = dict(
    modules=["Mdns.Props.C06"],
    model_files=_RESP_MODEL,
    nontrivial=lambda r: " respond " in r["impl"],
    extra_evidence=_resp_extra,
    gen_timeout=3000,
    rule="histories of ONE real daemon thread (harness/src/c07.rs, generate_c06): 3-10 actions, mostly injected queries built "
         "with the crate's encoder (1-3 questions: type PTR in exact/other case, subtype PTR, the _services._dns-sd._udp meta "
         "query, SRV/TXT/ANY/A/AAAA/PTR/NSEC on the instance name in four letter cases, A/AAAA/ANY/SRV/TXT/PTR on the host name "
         "in four letter cases, names nobody registered; known answers = the service's own records with TTL 0,1,half-1,half,"
         "half+1,full, cache-flush bit set or clear, owner in other letter case; query id 0 or random; source port 5353, 5354, "
         "40000, 53; source inside/outside the subnet; over IPv4 and IPv6; several datagrams in one iteration) before, during "
         "and after probing, after unregister and re-registration. Non-trivial = at least one response sent. Distinct = "
         "distinct scripts.",
    level_text="On the responder model (exact on these histories: every response packet with destination, id, flags, echoed "
               "questions and every record of every section with TTL and cache-flush bit is compared with the real daemon "
               "every run) - Lean theorems: handle_query (a loop over questions and services with accumulating state, as in the "
               "code) EQUALS the declarative rule written from the statement (handleQuery_spec): per question and announced "
               "service the type/subtype/meta PTR, SRV/TXT/ANY on the instance name, A/AAAA/ANY on the host name (names "
               "compared lower-cased), minus the records suppressed by a known answer, PTR answers bringing subtype PTR, SRV, "
               "TXT and the addresses of the querier's family as additionals; nothing for services that are not announced, "
               "not registered or without an address on the link; every record of every response has TTL 4500/120 and the "
               "cache-flush bit as stated and addresses only inside the receiving interface's subnet (response_records); "
               "the data is that of the most recent register call; a query from another port than 5353 gets one unicast "
               "packet to its sender with its id and questions echoed and every cache-flush bit clear (legacy_unicast), a "
               "query from 5353 one multicast packet with id 0 (multicast_reply).",
    level_note=_RESP_TRUST + "Readings: 'no address on that link' per family of the transport for PTR/SRV/TXT and per question "
               "type for host questions; an address record appears once per service sharing the host name (list, not set); "
               "the type name of a PTR question is compared exactly; SRV/TXT answers carry the owner name as asked and the "
               "host name as registered (renames: C08).",
    partial=["known-answer suppression is the code's `matches` (same letter case and cache-flush bit, D18 under C10)"],
    assumptions=_RESP_ASSUME,
)

CONFIG["C04"] = dict(
    modules=["Mdns.Props.C04"],
    model_files="Mdns/Model/Client.lean, Mdns/Model/Cache.lean, Mdns/Model/Record.lean, Mdns/Model/Decode.lean",
    nontrivial=_sim_nontrivial,
    extra_evidence=_sim_extra,
    rule=_CLIENT_RULE,
    level_text="Lean theorems on the client model: followup_queued (an update touching an instance with a usable PTR of a browsed "
               "type that cannot be resolved - only the PTR arrived, or SRV without address - queues Resolve(inst,1) at now+500 "
               "with a timer and marks it pending), followup_step (executing Resolve(inst,k) sends exactly the missing question: "
               "ANY inst without SRV entry, A+AAAA of the SRV target without address entry, nothing otherwise - and queues try "
               "k+1 500 ms ahead iff k < 3), resolved_when_complete / resolvedComplete_partial (an update touching an instance "
               "whose PTR, SRV and address are usable emits ServiceResolved on the browse channel in that very step), touched_by "
               "(which records count as an update), followup_runs_when_due (a queued Resolve(inst,k) that is due is run in the iteration, "
               "on the cache of the re-run phase: missing question out, try k+1 queued 500 ms ahead while k < 3), "
               "followups_at_500_1000_1500 (PTR only: ANY inst at n, n+500, n+1000). The completeness invariant over histories is stated "
               "(ResolvedComplete_full) and REFUTED on a concrete history (resolvedComplete_full_false: an address first seen as "
               "a goodbye and re-announced within the second only refreshes the cached entry, nothing re-resolves the "
               "instance) - the same history reproduces on the real daemon (corpus-candidates/C04). The model is compared "
               "exactly with the real daemon on every generated history (any partition / order / duplication of the record set, "
               "foreign mixes, follow-ups answered after 1-3 tries); the monitor ok_C04 decides completeness by the next step "
               "and the three follow-up queries on the real trace.",
    level_note=_CLIENT_NOTE,
    partial=["ResolvedComplete is proved as a step contract only; as an invariant it is false of model and code (re-delivered, "
             "not new, records are not updates): resolvedComplete_full_false",
             "the +500/+1000/+1500 schedule is composed in Lean for iterations that run at the due instants "
             "(followup_runs_when_due, followups_at_500_1000_1500); that such iterations exist is C12's wake_never_late_run"],
    assumptions=_CLIENT_ASSUME,
)

CONFIG["C05"] = dict(
    modules=["Mdns.Props.C05"],
    model_files="Mdns/Model/Client.lean, Mdns/Model/Cache.lean, Mdns/Model/Record.lean, Mdns/Model/Decode.lean",
    nontrivial=_sim_nontrivial,
    extra_evidence=_sim_extra,
    rule=_CLIENT_RULE,
    level_text="Lean theorems on the client model, for ANY history: removed_sound / removed_sound_run (every ServiceRemoved(ty, "
               "inst) emitted at `now` has one of the two reasons the code has, on a cache justified by the delivered records: "
               "a PTR entry ty->inst with expires <= now or all SRV entries of inst expired (eviction), or inst had been "
               "resolved, a usable PTR still points to it and it can no longer be resolved - no usable SRV or no usable address "
               "of its host), not_evicted_while_live / not_unresolved_while_live (the contrapositives: never while PTR, SRV and "
               "address are live), goodbye_expiry (a goodbye sets the cached copy's expiry to exactly t+1000), removed_on_time "
               "(the eviction step of an iteration at now >= expiry sends ServiceRemoved on the browse channel) and "
               "not_removed_before, verify_deadline; removed_quiet_full is refuted (removed_quiet_full_false). The model is compared exactly with the real daemon on every generated "
               "history (goodbyes of all or part of the set, duplicated, re-announced within the second, silent expiry, verify "
               "1..10000 ms); the monitor ok_C05 derives due times from the delivered TTLs on the real trace.",
    level_note=_CLIENT_NOTE,
    partial=["removed_quiet_full (no ServiceResolved after ServiceRemoved without new records) is FALSE of model and code: "
             "removed_quiet_full_false, witness twoSrvAnnounce (two shared SRV records of one instance: resolve_service_from_cache "
             "looks at the first usable SRV only - ServiceRemoved while the second SRV and its address are live, and ServiceResolved "
             "later without any new record); reproduced on the real daemon (corpus-candidates/C05); removed_quiet_partial is what holds",
             "timeliness is a step contract (the iteration at the expiry instant exists by C12's wake-up theorems, composed in "
             "the monitor, not in Lean)"],
    assumptions=_CLIENT_ASSUME,
)

# reasons for properties that are deliberately not claimed (default text in tools/mkmanifest.py)
NOT_CLAIMED = {}
