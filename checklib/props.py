"""Per-property configuration of ./check: theorem modules, non-triviality rules,
shrinkers and mutators for the search after a broken correspondence."""
import random
import re

shrinkers = {}
mutators = {}


# ------------------------------------------------------------------------------ C16

def _props_of(toks, i):
    """parse `n (key valopt)*` starting at toks[i]; returns (list of token-lists, next index)"""
    n = int(toks[i])
    i += 1
    items = []
    for _ in range(n):
        if toks[i + 1] == "none":
            items.append(toks[i:i + 2])
            i += 2
        else:
            items.append(toks[i:i + 3])
            i += 3
    return items, i


def _shrink_txt_props(op):
    toks = op.split(" ")
    start = 2 if toks[0] == "txt-trip" else 1
    try:
        items, end = _props_of(toks, start)
    except (ValueError, IndexError):
        return
    for k in range(len(items)):
        rest = items[:k] + items[k + 1:]
        yield " ".join(toks[:start] + [str(len(rest))] + [t for it in rest for t in it] + toks[end:])


shrinkers["txt-trip"] = _shrink_txt_props
shrinkers["txt-get"] = _shrink_txt_props


def _mutate_hex_op(op, seed):
    """byte-level neighbours of every hex token of an op"""
    rnd = random.Random(seed)
    toks = op.split(" ")
    idx = [i for i, t in enumerate(toks) if i > 0 and re.fullmatch(r"([0-9a-f]{2})+", t)]
    if not idx:
        return
    while True:
        i = rnd.choice(idx)
        b = bytearray.fromhex(toks[i])
        k = rnd.randrange(len(b))
        c = rnd.randrange(4)
        if c == 0:
            b[k] = rnd.choice([0, 1, 0x3d, 0x41, 0x61, 0x7f, 0x80, 0xff, (b[k] + 1) % 256, (b[k] - 1) % 256])
        elif c == 1 and len(b) > 1:
            del b[k]
        elif c == 2:
            b.insert(k, rnd.choice([0, 0x3d, 0x61, 0x41, 0xff]))
        else:
            b[k] ^= 1 << rnd.randrange(8)
        t = b.hex() if b else "-"
        yield " ".join(toks[:i] + [t] + toks[i + 1:])


for _k in ("txt-trip", "txt-decode", "txt-decode-unique", "txt-get"):
    mutators[_k] = _mutate_hex_op


def _c16_nontrivial(r):
    op = r["op"].split(" ")
    if op[0] == "txt-trip":
        return r["impl"].startswith("ok") and op[2] != "0"
    if op[0] in ("txt-decode", "txt-decode-unique"):
        return r["impl"].startswith("ok") and not r["impl"].startswith("ok 0")
    if op[0] == "txt-get":
        return r["impl"].startswith("some")
    return False


def _c01_nontrivial(r):
    # the decoder got past the header: a message with at least one entry, or an error on
    # a datagram that has at least a full header
    if r["impl"].startswith("ok"):
        t = r["impl"].split(" ")
        return len(t) > 8
    return len(r["op"].split(" ")[1]) >= 24 + 2


def _c01_extra(recs):
    peak = us = 0
    big = 0
    for r in recs:
        m = re.search(r"peak=(\d+) us=(\d+) len=(\d+)", r.get("meas", ""))
        if m:
            peak = max(peak, int(m.group(1)))
            us = max(us, int(m.group(2)))
            big += int(m.group(3)) >= 1000
    return dict(max_peak_alloc_bytes=peak, max_decode_micros=us, datagrams_of_1000_bytes_or_more=big)


mutators["decode"] = _mutate_hex_op


# ------------------------------------------------------------------------------ C02

def _encode_parse(op):
    """structure of an `encode` op: (head tokens, questions, answers, authorities, additionals),
    every entry a list of tokens"""
    t = op.split(" ")
    i = 3
    head = t[:3]

    def rec(i):
        j = i + 4
        j += 5 if t[j] == "srv" else 2
        return j

    nq = int(t[i]); i += 1
    qs = []
    for _ in range(nq):
        qs.append(t[i:i + 2]); i += 2
    nan = int(t[i]); i += 1
    an = []
    for _ in range(nan):
        j = rec(i) + 1
        an.append(t[i:j]); i = j
    secs = []
    for _ in range(2):
        n = int(t[i]); i += 1
        sec = []
        for _ in range(n):
            j = rec(i)
            sec.append(t[i:j]); i = j
        secs.append(sec)
    return head, qs, an, secs[0], secs[1]


def _encode_render(head, qs, an, au, ad):
    out = list(head)
    for sec in (qs, an, au, ad):
        out.append(str(len(sec)))
        for e in sec:
            out += e
    return " ".join(out)


def _shrink_encode(op):
    try:
        head, qs, an, au, ad = _encode_parse(op)
    except (ValueError, IndexError):
        return
    secs = [qs, an, au, ad]
    for si, sec in enumerate(secs):
        if len(sec) > 8:            # halves first
            for half in (sec[:len(sec) // 2], sec[len(sec) // 2:]):
                c = list(secs); c[si] = half
                yield _encode_render(head, *c)
        for k in range(min(len(sec), 40)):
            c = list(secs); c[si] = sec[:k] + sec[k + 1:]
            yield _encode_render(head, *c)


def _mutate_encode(op, seed):
    """neighbours of an encode op that stay well-formed: drop / duplicate / swap entries,
    change numeric fields to boundary values, replace ASCII bytes of names by '.', '\\', 'a'"""
    rnd = random.Random(seed)
    try:
        head, qs, an, au, ad = _encode_parse(op)
    except (ValueError, IndexError):
        return
    while True:
        secs = [list(qs), [list(e) for e in an], [list(e) for e in au], [list(e) for e in ad]]
        h = list(head)
        c = rnd.randrange(6)
        nonempty = [i for i in range(4) if secs[i]]
        if c == 0:
            h[1] = str(rnd.choice([0, 0x8400, 0x8000, 0x0200]))
        elif not nonempty:
            continue
        else:
            si = rnd.choice(nonempty)
            k = rnd.randrange(len(secs[si]))
            e = list(secs[si][k])
            if c == 1:
                del secs[si][k]
            elif c == 2:
                secs[si].insert(rnd.randrange(len(secs[si]) + 1), e)
            elif c == 3 and si > 0:
                e[3] = str(rnd.choice([0, 1, 120, 2 ** 31, 2 ** 32 - 1]))
                e[2] = str(rnd.choice([1, 0x8001, 0x7FFF]))
                secs[si][k] = e
            elif c == 4 and si > 0 and e[4] == "txt" and e[5] != "-":
                b = bytes.fromhex(e[5])
                d = rnd.choice([-1, 1, -2, 2])
                b = b[:max(0, len(b) + d)] if d < 0 else b + b"\x00" * d
                e[5] = b.hex() if b else "-"
                secs[si][k] = e
            else:
                # a name token: owner (index 0) or the rdata name
                idx = [0]
                if si > 0 and e[4] == "ptr":
                    idx.append(5)
                if si > 0 and e[4] == "srv":
                    idx.append(8)
                j = rnd.choice(idx)
                if e[j] == "-":
                    continue
                b = bytearray.fromhex(e[j])
                pos = [x for x in range(len(b)) if b[x] < 0x80]
                if not pos:
                    continue
                b[rnd.choice(pos)] = rnd.choice([0x2e, 0x5c, 0x61])
                e[j] = b.hex()
                secs[si][k] = e
        yield _encode_render(h, *secs)


shrinkers["encode"] = _shrink_encode
mutators["encode"] = _mutate_encode


def _c02_meas(r):
    return {k: int(v) for k, v in re.findall(r"(\w+)=(\d+)", r.get("meas", ""))}


def _c02_nontrivial(r):
    # at least one compression pointer was emitted
    return r["op"].startswith("encode ") and _c02_meas(r).get("ptrs", 0) > 0


def _c02_extra(recs):
    enc = [r for r in recs if r["op"].startswith("encode ")]
    ms = [_c02_meas(r) for r in enc]
    return dict(
        encode_cases=len(enc),
        with_compression_pointer=sum(1 for m in ms if m.get("ptrs", 0) > 0),
        with_record_left_out_or_expired=sum(1 for m in ms if m.get("left", 0) > 0),
        with_several_packets=sum(1 for m in ms if m.get("pk", 0) > 1),
        first_packet_at_8971_8972=sum(1 for m in ms if m.get("max", 0) in (8971, 8972)),
        largest_packet=max([m.get("max", 0) for m in ms] or [0]),
        encoder_panics_outside_domain=sum(1 for r in enc if r["impl"] == "panic"),
    )

CONFIG = {
    "C01": dict(
        modules=["Mdns.Props.C01"],
        model_files="Mdns/Model/Decode.lean",
        nontrivial=_c01_nontrivial,
        extra_evidence=_c01_extra,
        rule="every string over {00,01,3F,40,C0,0C,'a'} up to length 4 (quick) / 6 (thorough) after a query header "
             "with one question and after a response header with one answer (exhaustive); then from VERIF_SEED: "
             "uniformly random bytes (lengths 0..9000), packets from the crate's own encoder unmodified / mutated / "
             "truncated, grammar packets (arbitrary counts, RDLENGTH exact/+-1/0/65535, known and unknown types, "
             "HINFO/NSEC corner cases, pointer graphs forward/self/cyclic/into RDATA, reserved label prefixes) in a "
             "clean and a malformed stream, and 9000-byte pointer-chain amplification shapes. Each decode runs in a "
             "worker subprocess under a 4 s watchdog with catch_unwind and a counting allocator. Non-trivial = decoded "
             "message with at least one entry, or an error on a datagram with a complete header. Distinct = distinct datagrams.",
        level_text="No panic, bounded read_name loop (<= 255 iterations, <= 127 pointers), names <= 255 bytes, entry counts and "
                   "copied bytes linear in the datagram length, record spans inside the datagram and TTL 0 -> 1 are Lean theorems "
                   "for every byte array; termination is checked by Lean at definition time. The model is compared with "
                   "DnsIncoming::new of the working tree on every run and the theorems' conclusions are evaluated on the real output.",
        level_note="Trusted: Lean kernel; axioms propext, Classical.choice, Quot.sound only; hand-written model tied to the code by "
                   "differential testing of this run's inputs; wall-clock and allocation are measured (watchdog, counting allocator), not proved.",
        assumptions=[
            "wall-clock time and allocator peaks are measured on the real decoder (watchdog 4 s, peak <= 256*len + 64 KiB), "
            "not proved; the theorems bound the model's loop iterations, entry counts and copied bytes",
            "UTF-8 validation is the model's `validUtf8` (RFC 3629), compared with core::str::from_utf8 on every generated label",
        ],
    ),
    "C02": dict(
        modules=["Mdns.Props.C02"],
        model_files="Mdns/Model/Encode.lean",
        nontrivial=_c02_nontrivial,
        extra_evidence=_c02_extra,
        rule="messages generated from VERIF_SEED by vharness (c02.rs) and built through the crate's own add_* calls: names from "
             "label pools with shared suffixes, labels containing '.', '\\', multi-byte UTF-8 and of 1, 62, 63 bytes; PTR/SRV/TXT/A/AAAA "
             "in every section, TTLs over the whole u32 range, aged known answers (now != 0); packets filled to a small gap followed "
             "by a record that does not fit and shares name suffixes with the records after it (roll-back), first packets "
             "calibrated to 8971/8972/8973 bytes, TXT records up to 9000 bytes and up to 1500 records (totals up to 4x the limit, "
             "TC continuation for queries, break for responses), question-only messages beyond 8972 and 16384 bytes, and a "
             "malformed share (64-byte labels, empty labels, trailing backslash, names over 255 octets); plus escape / "
             "parse-escaped ops. Non-trivial = an encode case whose packets contain at least one compression pointer. "
             "Distinct = distinct op lines.",
        level_text="Lean theorems for ALL messages in the domain (names <= 255 octets, RDATA kind matching the type; labels 1..=63 bytes implied), "
                   "with compression, escaping, roll-back and TC continuation: encode_sound (an independent RFC 1035 reference reader written in "
                   "Lean parses every packet to exactly the questions and an in-order subsequence of the records that were added, field by "
                   "field with label SEQUENCES; every packet <= 8972 bytes; TC on all but the last), header_counts, tc_flags, carried_in_order, "
                   "names_invariant_writeName / names_invariant_writeRecord (compression-table invariant, exact restore on roll-back), "
                   "encode_no_panic, labels_escape (registration escaping inverted by the wire writer), parseEscaped_no_empty. The size bound and "
                   "the round trip carry the hypothesis questionsSize <= 8972, which is the known defect D17. The encoder model is compared BYTE "
                   "FOR BYTE with DnsOutgoing::to_data_on_wire of the working tree on every run; the conclusion of encode_sound in decidable form "
                   "(soundCore, theorem soundCore_holds) is evaluated with the same reference reader on the REAL packets, plus: no record left "
                   "out that would fit; the crate's own decoder agrees.",
        partial=["decode_agrees (the crate's own decoder reads the same content) is stated in Props/C02.lean as part of `C02_full` but not proved; "
                 "it is checked on the real packets of every run by the monitor clauses own-decoder-rejects / own-decoder-differs",
                 "that a left-out record did not fit is checked by the monitor (clause dropped-record-that-fits), in the model it is the "
                 "literal condition of the roll-back branch"],
        level_note="Trusted: Lean kernel; axioms propext, Classical.choice, Quot.sound only; hand-written model tied to the code by differential "
                   "testing of this run's inputs; the reference reader is the specification of 'parses back'. Records are created at a fixed "
                   "virtual time (the crate's clock seam).",
        assumptions=[
            "names are valid UTF-8 (Rust String); '.' and '\\' never occur inside a multi-byte sequence, so the crate's char loops are modelled as byte loops",
            "DnsOutgoing.multicast is always true (no code path clears it), hence the id on the wire is 0",
            "HINFO / NSEC records are outside the property's quantifier and are not generated",
        ],
    ),
    "C16": dict(
        modules=["Mdns.Props.C16"],
        model_files="Mdns/Model/Txt.lean",
        nontrivial=_c16_nontrivial,
        rule="ops generated from VERIF_SEED by vharness (c16.rs): property lists through Vec<TxtProperty>, "
             "&[(K,V)], HashMap, Option<HashMap> with key/value lengths around 0/1/254/255/256, binary values, "
             "duplicate and case-variant keys, a separate share of invalid keys; arbitrary and mutated TXT bytes "
             "for decoding; case-insensitive lookups. Non-trivial = creation accepted with at least one "
             "property / decoding yields at least one property / lookup hits. Distinct = distinct op lines.",
        level_text="Round trip, refusal of unrepresentable properties, decoder totality/in-bounds and case-insensitive first-key-wins "
                   "lookup are Lean theorems for all property lists and all byte strings; the model is compared with ServiceInfo::new/"
                   "encode_txt/decode_txt/decode_txt_unique/TxtProperties::get of the working tree on every run and the theorems' "
                   "conclusions are evaluated on the real outputs.",
        level_note="Trusted: Lean kernel; axioms propext, Classical.choice, Quot.sound only; the hand-written model is tied to the code by "
                   "differential testing of this run's generated inputs (not by proof); lower-casing modelled on ASCII; HashMap "
                   "storage order read from the implementation.",
        assumptions=[
            "lower-casing is modelled on ASCII only; decode_txt_unique is compared only on inputs whose keys are ASCII",
            "the storage order of HashMap inputs is read from the implementation (hash seed is an environment input)",
        ],
    ),
}

# reasons for properties that are deliberately not claimed (default text in tools/mkmanifest.py)
NOT_CLAIMED = {}
