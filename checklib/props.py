"""Per-property configuration of ./check: theorem modules, non-triviality rules,
shrinkers and mutators for the search after a broken correspondence."""
import random
import re

shrinkers = {}
mutators = {}


# ------------------------------------------------------------------------------ C16

def _props_of(toks, i):
    """parse `n (key valopt)*` starting at toks[i]; returns (list of token-lists, next index)"""
    n = int(toks[i])
    i += 1
    items = []
    for _ in range(n):
        if toks[i + 1] == "none":
            items.append(toks[i:i + 2])
            i += 2
        else:
            items.append(toks[i:i + 3])
            i += 3
    return items, i


def _shrink_txt_props(op):
    toks = op.split(" ")
    start = 2 if toks[0] == "txt-trip" else 1
    try:
        items, end = _props_of(toks, start)
    except (ValueError, IndexError):
        return
    for k in range(len(items)):
        rest = items[:k] + items[k + 1:]
        yield " ".join(toks[:start] + [str(len(rest))] + [t for it in rest for t in it] + toks[end:])


shrinkers["txt-trip"] = _shrink_txt_props
shrinkers["txt-get"] = _shrink_txt_props


def _mutate_hex_op(op, seed):
    """byte-level neighbours of every hex token of an op"""
    rnd = random.Random(seed)
    toks = op.split(" ")
    idx = [i for i, t in enumerate(toks) if i > 0 and re.fullmatch(r"([0-9a-f]{2})+", t)]
    if not idx:
        return
    while True:
        i = rnd.choice(idx)
        b = bytearray.fromhex(toks[i])
        k = rnd.randrange(len(b))
        c = rnd.randrange(4)
        if c == 0:
            b[k] = rnd.choice([0, 1, 0x3d, 0x41, 0x61, 0x7f, 0x80, 0xff, (b[k] + 1) % 256, (b[k] - 1) % 256])
        elif c == 1 and len(b) > 1:
            del b[k]
        elif c == 2:
            b.insert(k, rnd.choice([0, 0x3d, 0x61, 0x41, 0xff]))
        else:
            b[k] ^= 1 << rnd.randrange(8)
        t = b.hex() if b else "-"
        yield " ".join(toks[:i] + [t] + toks[i + 1:])


for _k in ("txt-trip", "txt-decode", "txt-decode-unique", "txt-get"):
    mutators[_k] = _mutate_hex_op


def _c16_nontrivial(r):
    op = r["op"].split(" ")
    if op[0] == "txt-trip":
        return r["impl"].startswith("ok") and op[2] != "0"
    if op[0] in ("txt-decode", "txt-decode-unique"):
        return r["impl"].startswith("ok") and not r["impl"].startswith("ok 0")
    if op[0] == "txt-get":
        return r["impl"].startswith("some")
    return False


def _c01_nontrivial(r):
    # the decoder got past the header: a message with at least one entry, or an error on
    # a datagram that has at least a full header
    if r["impl"].startswith("ok"):
        t = r["impl"].split(" ")
        return len(t) > 8
    return len(r["op"].split(" ")[1]) >= 24 + 2


def _c01_extra(recs):
    peak = us = 0
    big = 0
    for r in recs:
        m = re.search(r"peak=(\d+) us=(\d+) len=(\d+)", r.get("meas", ""))
        if m:
            peak = max(peak, int(m.group(1)))
            us = max(us, int(m.group(2)))
            big += int(m.group(3)) >= 1000
    return dict(max_peak_alloc_bytes=peak, max_decode_micros=us, datagrams_of_1000_bytes_or_more=big)


mutators["decode"] = _mutate_hex_op


# ------------------------------------------------------------------ C08 / C18 / C19

_RDATA_ARGS = {"a": 1, "aaaa": 1, "ptr": 1, "txt": 1, "srv": 4, "hinfo": 2, "nsec": 2}


def _recdescs_of(toks, i):
    """parse `n (<namehex> <ty> <class> <ttl> <rdata>)*` at toks[i]; returns (items, next index)"""
    n = int(toks[i])
    i += 1
    items = []
    for _ in range(n):
        k = 5 + _RDATA_ARGS[toks[i + 4]]
        items.append(toks[i:i + k])
        i += k
    return items, i


def _shrink_tiebreak(op):
    toks = op.split(" ")
    try:
        a, j = _recdescs_of(toks, 4)
        b, end = _recdescs_of(toks, j)
    except (ValueError, IndexError, KeyError):
        return

    def line(a, b):
        return " ".join(toks[:4] + [str(len(a))] + [t for it in a for t in it] + [str(len(b))] + [t for it in b for t in it])
    for k in range(len(a)):
        yield line(a[:k] + a[k + 1:], b)
    for k in range(len(b)):
        yield line(a, b[:k] + b[k + 1:])


shrinkers["tiebreak"] = _shrink_tiebreak

_KIND_ARGS = {"all": 0, "ipv4": 0, "ipv6": 0, "lo4": 0, "lo6": 0, "name": 1, "addr": 1, "idx4": 1, "idx6": 1,
              "pred-prefix": 1, "pred-parity": 1}


def _ifaces_of(toks, i):
    n = int(toks[i])
    i += 1
    items = []
    for _ in range(n):
        k = 4 if toks[i + 1] == "none" else 5
        items.append(toks[i:i + k])
        i += k
    return items, i


def _shrink_select(op):
    toks = op.split(" ")
    try:
        n = int(toks[1])
        i = 2
        sels = []
        for _ in range(n):
            k = 2 + _KIND_ARGS[toks[i]]
            sels.append(toks[i:i + k])
            i += k
        ifs, _ = _ifaces_of(toks, i)
    except (ValueError, IndexError, KeyError):
        return

    def line(sels, ifs):
        return " ".join(["select", str(len(sels))] + [t for it in sels for t in it] + [str(len(ifs))] + [t for it in ifs for t in it])
    for k in range(len(sels)):
        yield line(sels[:k] + sels[k + 1:], ifs)
    for k in range(len(ifs)):
        yield line(sels, ifs[:k] + ifs[k + 1:])


shrinkers["select"] = _shrink_select


def _shrink_backoff(op):
    toks = op.split(" ")
    try:
        k = int(toks[4])
    except (ValueError, IndexError):
        return
    for smaller in (2, 3, k // 2, k - 1):
        if 1 <= smaller < k:
            yield " ".join(toks[:4] + [str(smaller)])


shrinkers["backoff"] = _shrink_backoff

for _k in ("name-change", "hostname-change", "check-name", "split-sub", "escaped-labels"):
    mutators[_k] = _mutate_hex_op


def _c08_nontrivial(r):
    t = r["op"].split(" ")
    if t[0] == "rec-compare":
        # class and type equal: the RDATA comparison decides
        try:
            a, _ = _recdescs_of(["2"] + t[1:], 0)
        except (ValueError, IndexError, KeyError):
            return False
        return a[0][1:3] == a[1][1:3] and (int(a[0][2]) ^ int(a[1][2])) & 0x7FFF == 0
    if t[0] == "tiebreak":
        # probe started and both sides bring records
        try:
            a, j = _recdescs_of(t, 4)
            b, _ = _recdescs_of(t, j)
        except (ValueError, IndexError, KeyError):
            return False
        return int(t[1]) < int(t[2]) and len(a) > 0 and len(b) > 0
    if t[0] in ("name-change", "hostname-change"):
        return r["impl"].startswith("ok")
    return False


def _c08_extra(recs):
    lost = ties = rt0 = 0
    for r in recs:
        if r["op"].startswith("tiebreak ") and r["impl"].startswith("ok"):
            n = r["impl"].split(" ").count("lost")
            lost += n == 1
            ties += n == 0
            rt0 += "rt=0" in r.get("meas", "")
    return dict(tiebreaks_with_one_loser=lost, tiebreaks_without_loser=ties,
                tiebreaks_where_the_wire_changed_the_compared_data=rt0)


def _c18_nontrivial(r):
    t = r["op"].split(" ")
    if t[0] in ("select", "select-at"):
        return t[1] != "0" and not r["impl"].startswith("ok 0")
    if t[0] == "valid-ip":
        return len(t[1]) == len(t[2])
    if t[0] == "addrs-on-intf":
        return t[2] != "0" and t[-1] != "0" and len(t) > 5
    return t[0] in ("if-match", "resolve-addr")


def _c19_nontrivial(r):
    t = r["impl"].split(" ")
    return t[0] == "ok" and len(t) > 3 and int(t[2]) >= 1

CONFIG = {
    "C08": dict(
        modules=["Mdns.Props.C08"],
        model_files="Mdns/Model/Compare.lean, Mdns/Model/Names.lean",
        nontrivial=_c08_nontrivial,
        extra_evidence=_c08_extra,
        partial=[
            "component level only: the comparison, the tiebreak decision, the renaming functions and the name checks",
            "not yet covered (daemon level): detection of a conflicting response while probing and after announcing",
            "not yet covered (daemon level): the renamed service is probed again, announced, reported as NameChange and answered under the new name only (names_consistent, conflict_contract)",
            "not yet covered (daemon level): restart of probing one second after a lost tiebreak (timer), two_daemons_converge",
            "clause 'the new name is still encodable': full statement false of the code (D13, D14, D15, D15b are known findings); proved: rename_keeps_name_encodable_partial",
        ],
        rule="exhaustive: rec-compare on all ordered pairs of a 46-record alphabet (every RDATA kind, neighbouring values, both "
             "classes, cache-flush bit, type numbers that belong to another kind); tiebreak on all ordered pairs of record lists of "
             "length <= 2 over 7 records (quick) / length <= 3 over 5 records (thorough), each executed from both probers' "
             "perspectives through the crate's encoder and decoder. From VERIF_SEED: random larger record sets, reordered / "
             "one-record-changed copies, foreign owner names, probe not yet started; probe timing at 0/249/250/251/499/500/749/750/751 ms; "
             "renaming of 33 first labels (escaped dots and backslashes, multi-byte UTF-8, spaces, parentheses, hyphens) x 27 "
             "number spellings (0, 9, 99, leading zeros, '+', '-', 4294967294..4294967296, 20 digits, non-ASCII digits) as '(N)' and "
             "'-N' suffix x 6 tails, label lengths 55..65 and name lengths 249..256, repeated renaming; the name checks on 665 "
             "type/instance/domain combinations. Non-trivial = comparison reaching RDATA / started probe with records on both sides / "
             "rename that returns. Distinct = distinct op lines.",
        level_text="Component-level part of C08. Lean theorems for all records and record lists: the comparison is class, then type, then "
                   "RDATA (compare_order); it is antisymmetric and equal only on identical data (compare_antisymm, compare_eq_iff; decoded "
                   "records are proved well-typed, decoded_compatible), so two probers reach opposite verdicts, never both yield, and nobody "
                   "yields only on identical data (tiebreak_opposite, tiebreak_tie_iff, tiebreak_two_probers); fewer records yield "
                   "(tiebreak_length_rule); the loser restarts exactly one second later (tiebreaking_spec). name_change / hostname_change "
                   "append ' (2)' / '-2' or count an existing suffix up, keep everything from the first dot on, count 2, 3, 4, ... on repeated "
                   "renaming, never return an error and panic only on the u32 overflow at 4294967295 (name_change_spec, hostname_change_spec, "
                   "*_counts_up, rename_panics_only_on_overflow); the first part grows by at most 4 / 2 bytes (rename_label_bound). The full "
                   "clause 'the new name is still encodable' is false of the code (rename_keeps_name_encodable_full_is_false; known findings "
                   "D13, D14, D15, D15b); proved instead: rename_keeps_name_encodable_partial (first label without escapes, <= 59 / 61 bytes, "
                   "name <= 251 / 253 bytes). The model is compared with DnsRecordExt::compare, Probe::tiebreaking (through the real encoder and "
                   "decoder, from both probers' sides), name_change, hostname_change, the check_* functions and parse_escaped_name of the working "
                   "tree on every run, and the theorems' conclusions are evaluated on the real outputs. The daemon-level clauses of C08 (see "
                   "coverage.partial) are not covered yet.",
        level_note="Trusted: Lean kernel; axioms propext, Classical.choice, Quot.sound only; hand-written model tied to the code by differential "
                   "testing of this run's inputs; the order of same-type records inside a probe (binary_search_by leaves it open) is read from "
                   "the implementation. Known findings D13, D14, D15, D15b are reproduced on every run and listed, not suppressed silently.",
        assumptions=[
            "the order insert_record gives records of equal (class, type) is unspecified by binary_search_by; it is read from the implementation "
            "after checking that it is a sorted permutation, and the theorems hold for every such order",
            "tiebreak ops use owner names and RDATA names without escapes and with a trailing dot, for which encoder and decoder keep the compared "
            "data (measured per op as rt=1); SRV targets are compared as decoded strings, not in wire form",
            "compare is antisymmetric for records whose Rust struct is determined by class and type (all decoded records, all records the daemon "
            "builds); a pointer record constructed with the type number of an address record compares Greater in both directions",
            "now + 1000 and start + 750 are modelled without u64 overflow",
        ],
    ),
    "C18": dict(
        modules=["Mdns.Props.C18"],
        model_files="Mdns/Model/Intf.lean",
        nontrivial=_c18_nontrivial,
        partial=[
            "component level only: IfKind::matches, the selection loop, resolve_addr_to_index, valid_ip_on_intf, get_addrs_on_my_intf_v4/v6",
            "not yet covered (daemon level): every packet for a service leaves only on selected interfaces in a common subnet and carries only such addresses (send_only_on_link)",
            "not yet covered (daemon level): addr_auto services follow address changes; records learned on a removed interface disappear (intf_removed_spec); family_disabled_spec",
        ],
        rule="exhaustive: every IfKind of a 19-kind alphabet against 11 interfaces (v4/v6, loopback, index none/0, shared names); every "
             "enable/disable sequence of length <= 3 over 6 kinds and of length 4 over 4 kinds on topologies of 1-3 interfaces; every "
             "prefix length 0..32 (and 0,1,7,8,9,63,64,65,127,128 for v6; all in thorough) with addresses differing from the interface "
             "address in the bit before / at / after the prefix boundary, non-contiguous masks, mixed families. From VERIF_SEED: random "
             "selection sequences (length <= 6) on random tables (<= 4 entries, duplicates, empty), Addr selections resolved against "
             "the table of their call and applied to a later table, service address sets against interface address sets. "
             "Non-trivial = at least one selection and one interface / same-family subnet test / non-empty address sets. "
             "Distinct = distinct op lines.",
        level_text="Component-level part of C18. Lean theorems: an interface is selected iff the last matching selection (in call order) "
                   "enables it, enabled by default, independently of the other interfaces present, hence also for interfaces that appear "
                   "later (selected_iff, selected_later_interface, last_match_wins); an Addr selection is stored as index + family when the "
                   "address is present at the time of the call (resolve_addr_spec); the subnet test is equality under the netmask, octet by "
                   "octet, which for a /p mask is equality of the leading p bits, and never holds across families (validIp_iff_bytes, "
                   "validIp_iff_same_subnet, validIp_family); the addresses used on an interface are exactly the service's addresses of that "
                   "family lying in the subnet of one of the interface's addresses (addrsOnIntf_iff, addrsOnIntf_sublist). The model is compared "
                   "with Zeroconf::selected_intfs (called on a real Zeroconf value), IfKind::matches, resolve_addr_to_index, valid_ip_on_intf "
                   "and get_addrs_on_my_intf_v4/v6 of the working tree on every run and the theorems' conclusions are evaluated on the real "
                   "outputs. The daemon-level clauses (see coverage.partial) are not covered yet.",
        level_note="Trusted: Lean kernel; axioms propext, Classical.choice, Quot.sound only; hand-written model tied to the code by differential "
                   "testing of this run's inputs; IfKind::Predicate is exercised with two named predicate families shared by harness and model.",
        assumptions=[
            "IfKind::Predicate closures are represented by two named families (name prefix, index parity) defined identically in harness and model",
            "apply_intf_selections contains a textual copy of the loop of selected_intfs; only the latter is callable at component level, the former is observed at daemon level later",
        ],
    ),
    "C19": dict(
        modules=["Mdns.Props.C19"],
        model_files="Mdns/Model/Delay.lean",
        nontrivial=_c19_nontrivial,
        partial=[
            "component level only: the delay arithmetic, observed on a single undisturbed browse / hostname search of a real daemon thread in virtual time",
            "not yet covered (daemon level): at most one schedule per type/host (OneSchedule; known defect D9), exempt causes (cache refresh, resolve follow-ups, interface changes), query_rate with responders, stop/restart",
        ],
        rule="fixed cases: browse and resolve_hostname on a simulated one-interface daemon, nobody answers; the first k queries for "
             "k in {1,2,5,13,14,16} (thorough: up to 40) with the virtual clock following the daemon's requested wake-ups; 2^11 s = 2048 s "
             "is the last doubled gap below the cap, the next gaps are 3600 s. Non-trivial = at least two queries observed. Distinct = distinct op lines.",
        level_text="Component-level part of C19. Lean theorems: delay 0 = 1 s and delay (n+1) = min (2 * delay n) 3600 (delay_seq), closed form "
                   "min (2^n) 3600 (delay_closed_form), between 1 s and one hour, monotone, doubling exactly up to 2048 s and one hour from the "
                   "12th repetition on (delay_bounds, delay_mono, delay_cap); the code's u32 arithmetic never overflows along the sequence and "
                   "yields the gaps 1000 * delay i ms (gaps_spec, gaps_no_panic). The model is compared with the send times of real browse / "
                   "resolve_hostname searches of the working tree (real daemon thread, virtual clock) on every run and the closed form is evaluated "
                   "on the observed gaps. The daemon-level clauses (see coverage.partial) are not covered yet.",
        level_note="Trusted: Lean kernel; axioms propext, Classical.choice, Quot.sound only; hand-written model tied to the code by differential "
                   "testing of this run's inputs; the simulation seams of verif-hooks (virtual clock, loop gate, egress capture).",
        assumptions=[
            "Timely scheduler: the daemon is run exactly at the wake-ups it requests (the harness moves the virtual clock there)",
            "the doubling expression is inline in exec_command_browse / exec_command_resolve_hostname, so it is observed through query send times, not called",
        ],
    ),
    "C01": dict(
        modules=["Mdns.Props.C01"],
        model_files="Mdns/Model/Decode.lean",
        nontrivial=_c01_nontrivial,
        extra_evidence=_c01_extra,
        rule="every string over {00,01,3F,40,C0,0C,'a'} up to length 4 (quick) / 6 (thorough) after a query header "
             "with one question and after a response header with one answer (exhaustive); then from VERIF_SEED: "
             "uniformly random bytes (lengths 0..9000), packets from the crate's own encoder unmodified / mutated / "
             "truncated, grammar packets (arbitrary counts, RDLENGTH exact/+-1/0/65535, known and unknown types, "
             "HINFO/NSEC corner cases, pointer graphs forward/self/cyclic/into RDATA, reserved label prefixes) in a "
             "clean and a malformed stream, and 9000-byte pointer-chain amplification shapes. Each decode runs in a "
             "worker subprocess under a 4 s watchdog with catch_unwind and a counting allocator. Non-trivial = decoded "
             "message with at least one entry, or an error on a datagram with a complete header. Distinct = distinct datagrams.",
        level_text="No panic, bounded read_name loop (<= 255 iterations, <= 127 pointers), names <= 255 bytes, entry counts and "
                   "copied bytes linear in the datagram length, record spans inside the datagram and TTL 0 -> 1 are Lean theorems "
                   "for every byte array; termination is checked by Lean at definition time. The model is compared with "
                   "DnsIncoming::new of the working tree on every run and the theorems' conclusions are evaluated on the real output.",
        level_note="Trusted: Lean kernel; axioms propext, Classical.choice, Quot.sound only; hand-written model tied to the code by "
                   "differential testing of this run's inputs; wall-clock and allocation are measured (watchdog, counting allocator), not proved.",
        assumptions=[
            "wall-clock time and allocator peaks are measured on the real decoder (watchdog 4 s, peak <= 256*len + 64 KiB), "
            "not proved; the theorems bound the model's loop iterations, entry counts and copied bytes",
            "UTF-8 validation is the model's `validUtf8` (RFC 3629), compared with core::str::from_utf8 on every generated label",
        ],
    ),
    "C16": dict(
        modules=["Mdns.Props.C16"],
        model_files="Mdns/Model/Txt.lean",
        nontrivial=_c16_nontrivial,
        rule="ops generated from VERIF_SEED by vharness (c16.rs): property lists through Vec<TxtProperty>, "
             "&[(K,V)], HashMap, Option<HashMap> with key/value lengths around 0/1/254/255/256, binary values, "
             "duplicate and case-variant keys, a separate share of invalid keys; arbitrary and mutated TXT bytes "
             "for decoding; case-insensitive lookups. Non-trivial = creation accepted with at least one "
             "property / decoding yields at least one property / lookup hits. Distinct = distinct op lines.",
        level_text="Round trip, refusal of unrepresentable properties, decoder totality/in-bounds and case-insensitive first-key-wins "
                   "lookup are Lean theorems for all property lists and all byte strings; the model is compared with ServiceInfo::new/"
                   "encode_txt/decode_txt/decode_txt_unique/TxtProperties::get of the working tree on every run and the theorems' "
                   "conclusions are evaluated on the real outputs.",
        level_note="Trusted: Lean kernel; axioms propext, Classical.choice, Quot.sound only; the hand-written model is tied to the code by "
                   "differential testing of this run's generated inputs (not by proof); lower-casing modelled on ASCII; HashMap "
                   "storage order read from the implementation.",
        assumptions=[
            "lower-casing is modelled on ASCII only; decode_txt_unique is compared only on inputs whose keys are ASCII",
            "the storage order of HashMap inputs is read from the implementation (hash seed is an environment input)",
        ],
    ),
}

# reasons for properties that are deliberately not claimed (default text in tools/mkmanifest.py)
NOT_CLAIMED = {}
