"""Per-property configuration of ./check: theorem modules, non-triviality rules,
shrinkers and mutators for the search after a broken correspondence."""
import random
import re

shrinkers = {}
mutators = {}


# ------------------------------------------------------------------------------ C16

def _props_of(toks, i):
    """parse `n (key valopt)*` starting at toks[i]; returns (list of token-lists, next index)"""
    n = int(toks[i])
    i += 1
    items = []
    for _ in range(n):
        if toks[i + 1] == "none":
            items.append(toks[i:i + 2])
            i += 2
        else:
            items.append(toks[i:i + 3])
            i += 3
    return items, i


def _shrink_txt_props(op):
    toks = op.split(" ")
    start = 2 if toks[0] == "txt-trip" else 1
    try:
        items, end = _props_of(toks, start)
    except (ValueError, IndexError):
        return
    for k in range(len(items)):
        rest = items[:k] + items[k + 1:]
        yield " ".join(toks[:start] + [str(len(rest))] + [t for it in rest for t in it] + toks[end:])


shrinkers["txt-trip"] = _shrink_txt_props
shrinkers["txt-get"] = _shrink_txt_props


def _mutate_hex_op(op, seed):
    """byte-level neighbours of every hex token of an op"""
    rnd = random.Random(seed)
    toks = op.split(" ")
    idx = [i for i, t in enumerate(toks) if i > 0 and re.fullmatch(r"([0-9a-f]{2})+", t)]
    if not idx:
        return
    while True:
        i = rnd.choice(idx)
        b = bytearray.fromhex(toks[i])
        k = rnd.randrange(len(b))
        c = rnd.randrange(4)
        if c == 0:
            b[k] = rnd.choice([0, 1, 0x3d, 0x41, 0x61, 0x7f, 0x80, 0xff, (b[k] + 1) % 256, (b[k] - 1) % 256])
        elif c == 1 and len(b) > 1:
            del b[k]
        elif c == 2:
            b.insert(k, rnd.choice([0, 0x3d, 0x61, 0x41, 0xff]))
        else:
            b[k] ^= 1 << rnd.randrange(8)
        t = b.hex() if b else "-"
        yield " ".join(toks[:i] + [t] + toks[i + 1:])


for _k in ("txt-trip", "txt-decode", "txt-decode-unique", "txt-get"):
    mutators[_k] = _mutate_hex_op


def _c16_nontrivial(r):
    op = r["op"].split(" ")
    if op[0] == "txt-trip":
        return r["impl"].startswith("ok") and op[2] != "0"
    if op[0] in ("txt-decode", "txt-decode-unique"):
        return r["impl"].startswith("ok") and not r["impl"].startswith("ok 0")
    if op[0] == "txt-get":
        return r["impl"].startswith("some")
    return False


def _shrink_sim(op):
    head, _, script = op.partition(" daemon ")
    cmds = ("daemon " + script).split(" ; ")
    for k in range(len(cmds) - 1, 0, -1):
        if cmds[k].startswith(("daemon", "link")):
            continue
        yield head + " " + " ; ".join(cmds[:k] + cmds[k + 1:])


shrinkers["sim"] = _shrink_sim


def _sim_nontrivial(r):
    # at least one packet sent and one client event observed
    return " tx " in r["impl"] and " ev " in r["impl"]


def _sim_extra(recs):
    its = sum(r["impl"].count("it ") for r in recs)
    tx = sum(r["impl"].count(" tx ") for r in recs)
    ev = sum(r["impl"].count(" ev ") for r in recs)
    nomodel = sum(1 for r in recs if r["model"] == "nomodel")
    return dict(loop_iterations_observed=its, packets_observed=tx, client_events_observed=ev,
                histories_compared_with_model=len(recs) - nomodel, histories_monitor_only=nomodel)


def _c01_nontrivial(r):
    # the decoder got past the header: a message with at least one entry, or an error on
    # a datagram that has at least a full header
    if r["impl"].startswith("ok"):
        t = r["impl"].split(" ")
        return len(t) > 8
    return len(r["op"].split(" ")[1]) >= 24 + 2


def _c01_extra(recs):
    peak = us = 0
    big = 0
    for r in recs:
        m = re.search(r"peak=(\d+) us=(\d+) len=(\d+)", r.get("meas", ""))
        if m:
            peak = max(peak, int(m.group(1)))
            us = max(us, int(m.group(2)))
            big += int(m.group(3)) >= 1000
    return dict(max_peak_alloc_bytes=peak, max_decode_micros=us, datagrams_of_1000_bytes_or_more=big)


mutators["decode"] = _mutate_hex_op

CONFIG = {
    "C19": dict(
        modules=["Mdns.Props.C19Daemon"],
        model_files="Mdns/Model/Sched.lean",
        nontrivial=_sim_nontrivial,
        extra_evidence=_sim_extra,
        rule="histories on real daemon threads under the simulation seams (virtual clock, simulated interfaces, captured "
             "egress), generated from VERIF_SEED by harness/src/c19.rs: 1-3 interfaces (v4/v6), browse / browse again / "
             "browse_cache / stop_browse / resolve_hostname (with and without time-out, mixed case) / stop at arbitrary "
             "times around the schedule's marks, interface-check interval default / large / zero, observed event-driven "
             "over horizons up to 3.5 days of virtual time. Non-trivial = at least one packet and one client event. "
             "Distinct = distinct scripts.",
        level_text="The scheduler model (search commands, retransmission queue, timers, resolver time-outs, interface-check "
                   "timer) predicts every query (per interface and family), every search event and every requested wake-up "
                   "of these histories exactly; on it `one_schedule` (at most one queued retransmission per type/host in "
                   "every reachable state, any history) and the back-off step contracts are Lean theorems. The monitor checks "
                   "the back-off gaps 1,2,4,..,3600 s on the real packets.",
        level_note="Trusted: Lean kernel; axioms propext/Classical.choice/Quot.sound; hand model tied to the code by differential "
                   "comparison of whole histories; simulation seams bypass poll/recv/send/if_addrs/fastrand/system time; "
                   "histories here have no responders (empty cache) - queries caused by cache refresh, follow-ups, new "
                   "interfaces and verify are covered by other properties' checks.",
        partial=["the chain theorem over whole traces (k-th gap >= k-th delay) is stated as step contracts "
                 "(browse_starts_schedule, rerun_backs_off, not_due_not_sent) plus the invariant one_schedule, not yet as "
                 "one theorem over runAll"],
        assumptions=["event receivers stay alive (a dropped receiver ends the search early: not generated here)",
                     "one `now` per loop iteration"],
    ),
    "C01": dict(
        modules=["Mdns.Props.C01"],
        model_files="Mdns/Model/Decode.lean",
        nontrivial=_c01_nontrivial,
        extra_evidence=_c01_extra,
        rule="every string over {00,01,3F,40,C0,0C,'a'} up to length 4 (quick) / 6 (thorough) after a query header "
             "with one question and after a response header with one answer (exhaustive); then from VERIF_SEED: "
             "uniformly random bytes (lengths 0..9000), packets from the crate's own encoder unmodified / mutated / "
             "truncated, grammar packets (arbitrary counts, RDLENGTH exact/+-1/0/65535, known and unknown types, "
             "HINFO/NSEC corner cases, pointer graphs forward/self/cyclic/into RDATA, reserved label prefixes) in a "
             "clean and a malformed stream, and 9000-byte pointer-chain amplification shapes. Each decode runs in a "
             "worker subprocess under a 4 s watchdog with catch_unwind and a counting allocator. Non-trivial = decoded "
             "message with at least one entry, or an error on a datagram with a complete header. Distinct = distinct datagrams.",
        level_text="No panic, bounded read_name loop (<= 255 iterations, <= 127 pointers), names <= 255 bytes, entry counts and "
                   "copied bytes linear in the datagram length, record spans inside the datagram and TTL 0 -> 1 are Lean theorems "
                   "for every byte array; termination is checked by Lean at definition time. The model is compared with "
                   "DnsIncoming::new of the working tree on every run and the theorems' conclusions are evaluated on the real output.",
        level_note="Trusted: Lean kernel; axioms propext, Classical.choice, Quot.sound only; hand-written model tied to the code by "
                   "differential testing of this run's inputs; wall-clock and allocation are measured (watchdog, counting allocator), not proved.",
        assumptions=[
            "wall-clock time and allocator peaks are measured on the real decoder (watchdog 4 s, peak <= 256*len + 64 KiB), "
            "not proved; the theorems bound the model's loop iterations, entry counts and copied bytes",
            "UTF-8 validation is the model's `validUtf8` (RFC 3629), compared with core::str::from_utf8 on every generated label",
        ],
    ),
    "C16": dict(
        modules=["Mdns.Props.C16"],
        model_files="Mdns/Model/Txt.lean",
        nontrivial=_c16_nontrivial,
        rule="ops generated from VERIF_SEED by vharness (c16.rs): property lists through Vec<TxtProperty>, "
             "&[(K,V)], HashMap, Option<HashMap> with key/value lengths around 0/1/254/255/256, binary values, "
             "duplicate and case-variant keys, a separate share of invalid keys; arbitrary and mutated TXT bytes "
             "for decoding; case-insensitive lookups. Non-trivial = creation accepted with at least one "
             "property / decoding yields at least one property / lookup hits. Distinct = distinct op lines.",
        level_text="Round trip, refusal of unrepresentable properties, decoder totality/in-bounds and case-insensitive first-key-wins "
                   "lookup are Lean theorems for all property lists and all byte strings; the model is compared with ServiceInfo::new/"
                   "encode_txt/decode_txt/decode_txt_unique/TxtProperties::get of the working tree on every run and the theorems' "
                   "conclusions are evaluated on the real outputs.",
        level_note="Trusted: Lean kernel; axioms propext, Classical.choice, Quot.sound only; the hand-written model is tied to the code by "
                   "differential testing of this run's generated inputs (not by proof); lower-casing modelled on ASCII; HashMap "
                   "storage order read from the implementation.",
        assumptions=[
            "lower-casing is modelled on ASCII only; decode_txt_unique is compared only on inputs whose keys are ASCII",
            "the storage order of HashMap inputs is read from the implementation (hash seed is an environment input)",
        ],
    ),
}

# reasons for properties that are deliberately not claimed (default text in tools/mkmanifest.py)
NOT_CLAIMED = {}
