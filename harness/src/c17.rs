//! C17 (hostname resolution) and C20 (bounded state): client histories with a scripted
//! responder and with real responder daemons.
use crate::scen::*;
use crate::util::*;

pub fn generate_c17(r: &mut Rng, tier: &str, emit: &mut dyn FnMut(String)) {
    let n = if tier == "thorough" { 2000 } else { 200 };
    for i in 0..n {
        if i % 4 == 3 {
            let mut k = Knobs::base("C17");
            k.responders = 1 + r.below(2);
            k.steps = r.range(4, 9);
            k.p_resolve = 6;
            k.p_browse = 1;
            k.p_stop = 2;
            k.p_unregister = 3;
            k.p_shutdown = if r.chance(1, 4) { 1 } else { 0 };
            k.v6 = r.chance(1, 3);
            k.tail = *r.pick(&[5_000u64, 130_000, 300_000]);
            emit(gen_world(r, &k));
        } else {
            let st = r.range(4, 10);
            let tl = *r.pick(&[3_000u64, 15_000, 130_000]);
            emit(gen_scripted_opts(r, "C17", st, tl, 120_000, true));
        }
    }
}

pub fn generate_c20(r: &mut Rng, tier: &str, emit: &mut dyn FnMut(String)) {
    let n = if tier == "thorough" { 2000 } else { 200 };
    for _ in 0..n {
        // long tails: every TTL of the scripted records (<= 4500 s) has passed at the end
        let st = r.range(3, 10);
        let tl = *r.pick(&[20_000u64, 200_000, 5_000_000, 5_000_000]);
        let hosts = r.chance(1, 2);
        let s = gen_scripted_opts(r, "C20", st, tl, 120_000, hosts);
        // searches are stopped before the final metrics reading in most histories
        emit(s);
    }
}
