//! C17 (hostname resolution) and C20 (bounded state): client histories with a scripted
//! responder and with real responder daemons.
use crate::scen::*;
use crate::util::*;

/// C17: one open hostname search (caller and responder spell the name in any letter case), one or
/// two addresses answered with short TTLs, then silence until past their expiry: AddressesFound
/// when they arrive, the refresh queries, AddressesRemoved when they run out.
pub fn gen_address_life(r: &mut Rng) -> String {
    use mdns_sd::verif::parser::{RDataView, RecDesc};
    let mut cmds: Vec<String> = vec![format!("daemon {}", ifaces_of(0, false))];
    cmds.push("ipint 0 100000".to_string());
    let mut now = 1_000_000u64;
    cmds.push(format!("run {}", now));
    let base = *r.pick(&["srv-a.local.", "Host-B.local.", "MiXed-Case.local."]);
    let spell = |r: &mut Rng| match r.below(3) {
        0 => base.to_string(),
        1 => base.to_ascii_lowercase(),
        _ => base.to_ascii_uppercase().replace(".LOCAL.", ".local."),
    };
    cmds.push(format!("resolve 0 1 {} none", hx(&spell(r))));
    now += *r.pick(&[0u64, 300, 1200]);
    cmds.push(format!("run {}", now));
    let owner = spell(r);
    let mut max_ttl = 0u32;
    for k in 0..r.range(1, 2) {
        let ttl = *r.pick(&[2u32, 3, 5, 10]);
        max_ttl = max_ttl.max(ttl);
        let rec = RecDesc {
            name: owner.clone(),
            ty: 1,
            class: if r.chance(1, 2) { 0x8001 } else { 1 },
            ttl,
            rdata: RDataView::Addr { ip: format!("192.168.1.{}", 50 + k).parse().unwrap(), if_name: "x".into(), if_index: 0 },
        };
        cmds.push(format!("inject 0 2 1 192.168.1.50 5353 {}", response(&[rec], &[])));
        if r.chance(1, 2) {
            now += *r.pick(&[100u64, 700]);
            cmds.push(format!("run {}", now));
        }
    }
    now += max_ttl as u64 * 1000 + *r.pick(&[2000u64, 4000]);
    cmds.push(format!("run {}", now));
    format!("sim C17 {}", cmds.join(" ; "))
}

/// A dual-stack host: its A and AAAA records are learned on one interface, and more than a second
/// later a cache-flush response carries the records of ONE family only (the same address again,
/// or a new one).  The flush concerns records of the same name, TYPE and class: the other family
/// stays - no AddressesRemoved for it, and a later search still lists it.
pub fn gen_dual_stack_flush(r: &mut Rng) -> String {
    use mdns_sd::verif::parser::{RDataView, RecDesc};
    let mut cmds: Vec<String> = vec![format!("daemon {}", ifaces_of(0, false))];
    cmds.push("ipint 0 100000".to_string());
    let mut now = 1_000_000u64;
    cmds.push(format!("run {}", now));
    let host = *r.pick(&["dual.local.", "Dual-Stack.local."]);
    cmds.push(format!("resolve 0 1 {} none", hx(host)));
    cmds.push(format!("run {}", now));
    let rec = |ty: u16, ip: &str, ttl: u32, flush: bool| RecDesc {
        name: host.to_string(),
        ty,
        class: if flush { 0x8001 } else { 1 },
        ttl,
        rdata: RDataView::Addr { ip: ip.parse().unwrap(), if_name: "x".into(), if_index: 0 },
    };
    let ttl = *r.pick(&[120u32, 120, 30]);
    let a = rec(1, "192.168.1.77", ttl, true);
    let aaaa = rec(28, "fe80::7:20", ttl, true);
    if r.chance(1, 2) {
        cmds.push(format!("inject 0 2 1 192.168.1.50 5353 {}", response(&[a.clone(), aaaa.clone()], &[])));
    } else {
        cmds.push(format!("inject 0 2 1 192.168.1.50 5353 {}", response(&[a.clone()], &[])));
        cmds.push(format!("inject 0 2 1 192.168.1.50 5353 {}", response(&[aaaa.clone()], &[])));
    }
    now += *r.pick(&[1100u64, 1500, 5000]);
    cmds.push(format!("run {}", now));
    for _ in 0..r.range(1, 2) {
        let one = match r.below(4) {
            0 => a.clone(),
            1 => rec(1, "192.168.1.78", ttl, true), // the IPv4 address changed
            2 => aaaa.clone(),
            _ => rec(28, "fe80::7:21", ttl, true),
        };
        cmds.push(format!("inject 0 2 1 192.168.1.50 5353 {}", response(&[one], &[])));
        now += *r.pick(&[900u64, 1500, 4000]);
        cmds.push(format!("run {}", now));
    }
    // a second search (another letter case) is served from the cache
    cmds.push(format!("resolve 0 2 {} none", hx(&host.to_ascii_uppercase().replace(".LOCAL.", ".local."))));
    now += *r.pick(&[1000u64, 15_000]);
    cmds.push(format!("run {}", now));
    format!("sim C17 {}", cmds.join(" ; "))
}

pub fn generate_c17(r: &mut Rng, tier: &str, emit: &mut dyn FnMut(String)) {
    let n = if tier == "thorough" { 2000 } else { 200 };
    for i in 0..n {
        if i % 8 == 5 {
            emit(gen_address_life(r));
            continue;
        }
        if i % 8 == 6 {
            emit(crate::c13::gen_late_timeout(r, "C17"));
            continue;
        }
        if i % 8 == 2 {
            emit(gen_dual_stack_flush(r));
            continue;
        }
        if i % 4 == 3 {
            let mut k = Knobs::base("C17");
            k.responders = 1 + r.below(2);
            k.steps = r.range(4, 9);
            k.p_resolve = 6;
            k.p_browse = 1;
            k.p_stop = 2;
            k.p_unregister = 3;
            k.p_shutdown = if r.chance(1, 4) { 1 } else { 0 };
            k.v6 = r.chance(1, 3);
            k.tail = *r.pick(&[5_000u64, 130_000, 300_000]);
            emit(gen_world(r, &k));
        } else {
            let st = r.range(4, 10);
            let tl = *r.pick(&[3_000u64, 15_000, 130_000]);
            emit(gen_scripted_opts(r, "C17", st, tl, 120_000, true));
        }
    }
}

/// C20: records that arrive without the rest of a service or outlive it - NSEC next to an
/// address answer (no PTR in the packet), NSEC / SRV / TXT alone, one record type with a much
/// longer TTL than the others - under a hostname search, a browse or accept_unsolicited; every
/// search is stopped, every TTL passes, then the metrics are read.
pub fn gen_leftovers(r: &mut Rng) -> String {
    use mdns_sd::verif::parser::{RDataView, RecDesc};
    let mut cmds: Vec<String> = vec![format!("daemon {}", ifaces_of(0, false))];
    cmds.push("ipint 0 100000".to_string());
    let mut now = 1_000_000u64;
    cmds.push(format!("run {}", now));
    let inst = gen_inst(r, 0);
    let kind = r.below(3);
    match kind {
        0 => cmds.push(format!("resolve 0 1 {} none", hx(&inst.host))),
        1 => cmds.push(format!("browse 0 1 {}", hx(&inst.ty))),
        _ => cmds.push("accept 0 1".to_string()),
    }
    cmds.push(format!("run {}", now));
    let pool: &[u32] = &[1, 2, 5, 10, 120];
    let nsec = |name: &str, ttl: u32| RecDesc {
        name: name.to_string(),
        ty: 47,
        class: 0x8001,
        ttl,
        rdata: RDataView::Nsec { next: name.to_string(), bitmap: vec![0x40, 0, 0, 8] },
    };
    let mut max_ttl = 0u32;
    for _ in 0..r.range(1, 4) {
        let t = Ttls { ptr: *r.pick(pool), srv: *r.pick(pool), txt: *r.pick(pool), addr: *r.pick(pool) };
        let nt = *r.pick(pool);
        max_ttl = max_ttl.max(t.ptr).max(t.srv).max(t.txt).max(t.addr).max(nt);
        let recs = recs_of(&inst, &t, true);
        let full = recs[1].name.clone();
        if r.chance(1, 3) {
            // subtype PTRs of a type nobody browses, for several distinct instances
            for n in 0..r.range(1, 4) {
                let mut f = gen_inst(r, 7);
                f.ty = "_other._tcp.local.".to_string();
                f.label = format!("foreign{}", n);
                let mut fr = recs_of(&f, &t, true);
                fr[0].name = format!("_printer._sub.{}", f.ty);
                cmds.push(format!("inject 0 2 1 192.168.1.50 5353 {}", response(&fr[..1], &fr[1..])));
            }
        }
        let pkt = match r.below(7) {
            // the Apple way: address answer plus NSEC for the host, no PTR
            0 | 1 => {
                let mut a = recs[3..].to_vec();
                a.push(nsec(&inst.host, nt));
                raw_response(&a, &[])
            }
            2 => raw_response(&[nsec(&inst.host, nt)], &[]),
            3 => raw_response(&[nsec(&full, nt)], &recs[1..3]),
            4 => response(&recs[1..2], &[]),
            5 => response(&recs[2..3], &[]),
            _ => {
                let mut add = recs[1..].to_vec();
                add.push(nsec(&full, nt));
                add.push(nsec(&inst.host, nt));
                raw_response(&recs[..1], &add)
            }
        };
        cmds.push(format!("inject 0 2 1 192.168.1.50 5353 {}", pkt));
        now += *r.pick(&[0u64, 500, 1500, 4000]);
        cmds.push(format!("run {}", now));
    }
    cmds.push("metrics 0 8".to_string());
    cmds.push(format!("run {}", now));
    match kind {
        0 => cmds.push(format!("stopresolve 0 {}", hx(&inst.host))),
        1 => cmds.push(format!("stopbrowse 0 {}", hx(&inst.ty))),
        _ => {}
    }
    cmds.push(format!("run {}", now));
    now += max_ttl as u64 * 1000 + *r.pick(&[3_000u64, 60_000, 300_000]);
    cmds.push(format!("run {}", now));
    cmds.push("metrics 0 9".to_string());
    cmds.push(format!("run {}", now));
    format!("sim C20 {}", cmds.join(" ; "))
}

pub fn generate_c20(r: &mut Rng, tier: &str, emit: &mut dyn FnMut(String)) {
    let n = if tier == "thorough" { 2000 } else { 200 };
    for i in 0..n {
        if i % 4 == 3 {
            emit(gen_leftovers(r));
            continue;
        }
        if i % 8 == 6 {
            emit(crate::c13::gen_late_timeout(r, "C20"));
            continue;
        }
        // long tails: every TTL of the scripted records (<= 4500 s) has passed at the end
        let st = r.range(3, 10);
        let tl = *r.pick(&[20_000u64, 200_000, 5_000_000, 5_000_000]);
        let hosts = r.chance(1, 2);
        let s = gen_scripted_opts(r, "C20", st, tl, 120_000, hosts);
        // searches are stopped before the final metrics reading in most histories
        emit(s);
    }
}
