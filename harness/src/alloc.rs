//! Counting global allocator: current and peak live bytes (C01 memory clause).
use std::alloc::{GlobalAlloc, Layout, System};
use std::sync::atomic::{AtomicUsize, Ordering};

pub struct Counting;

static CUR: AtomicUsize = AtomicUsize::new(0);
static PEAK: AtomicUsize = AtomicUsize::new(0);

unsafe impl GlobalAlloc for Counting {
    unsafe fn alloc(&self, l: Layout) -> *mut u8 {
        let p = System.alloc(l);
        if !p.is_null() {
            let c = CUR.fetch_add(l.size(), Ordering::Relaxed) + l.size();
            PEAK.fetch_max(c, Ordering::Relaxed);
        }
        p
    }
    unsafe fn dealloc(&self, p: *mut u8, l: Layout) {
        System.dealloc(p, l);
        CUR.fetch_sub(l.size(), Ordering::Relaxed);
    }
    unsafe fn realloc(&self, p: *mut u8, l: Layout, new: usize) -> *mut u8 {
        let q = System.realloc(p, l, new);
        if !q.is_null() {
            if new >= l.size() {
                let c = CUR.fetch_add(new - l.size(), Ordering::Relaxed) + (new - l.size());
                PEAK.fetch_max(c, Ordering::Relaxed);
            } else {
                CUR.fetch_sub(l.size() - new, Ordering::Relaxed);
            }
        }
        q
    }
}

/// Runs `f` and returns (result, peak live bytes above the level at entry).
pub fn measure<T>(f: impl FnOnce() -> T) -> (T, usize) {
    let base = CUR.load(Ordering::Relaxed);
    PEAK.store(base, Ordering::Relaxed);
    let r = f();
    let peak = PEAK.load(Ordering::Relaxed);
    (r, peak.saturating_sub(base))
}
