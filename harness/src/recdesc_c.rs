//! Token form of a record description, for ops that build records with the crate's own
//! constructors (`verif::parser::build_record`):
//!
//!   recdesc = <namehex> <ty> <class-with-flush-bit> <ttl> <rdata>
//!   rdata   = a <hex4> | aaaa <hex16> | ptr <hex> | srv <prio> <weight> <port> <hex> | txt <hex>
//!
//! (`rdata` exactly as `wirefmt::rdata_toks` prints it).  Names are the crate's textual
//! names (UTF-8, escaped form) as passed to the API.
use crate::util::*;
use crate::wirefmt::rdata_toks;
use mdns_sd::verif::parser::{RDataView, RecDesc};
use std::net::{IpAddr, Ipv4Addr, Ipv6Addr};

/// interface id of address records built from a description (not on the wire)
pub fn addr(ip: IpAddr) -> RDataView {
    RDataView::Addr { ip, if_name: "e".into(), if_index: 1 }
}

pub fn read_rdata(t: &mut Toks) -> Option<RDataView> {
    Some(match t.tok()? {
        "a" => {
            let b: [u8; 4] = t.hex()?.try_into().ok()?;
            addr(IpAddr::V4(Ipv4Addr::from(b)))
        }
        "aaaa" => {
            let b: [u8; 16] = t.hex()?.try_into().ok()?;
            addr(IpAddr::V6(Ipv6Addr::from(b)))
        }
        "ptr" => RDataView::Ptr(t.string()?),
        "srv" => {
            let priority = u16::try_from(t.nat()?).ok()?;
            let weight = u16::try_from(t.nat()?).ok()?;
            let port = u16::try_from(t.nat()?).ok()?;
            RDataView::Srv { priority, weight, port, host: t.string()? }
        }
        "txt" => RDataView::Txt(t.hex()?),
        _ => return None,
    })
}

pub fn read_recdesc(t: &mut Toks) -> Option<RecDesc> {
    let name = t.string()?;
    let ty = u16::try_from(t.nat()?).ok()?;
    let class = u16::try_from(t.nat()?).ok()?;
    let ttl = u32::try_from(t.nat()?).ok()?;
    let rdata = read_rdata(t)?;
    Some(RecDesc { name, ty, class, ttl, rdata })
}

pub fn recdesc_toks(r: &RecDesc) -> String {
    format!("{} {} {} {} {}", hex(r.name.as_bytes()), r.ty, r.class, r.ttl, rdata_toks(&r.rdata))
}
