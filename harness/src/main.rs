//! vharness: generates op files for the Lean model driver and executes every op on the
//! real crate (built from /repo's working tree with feature `verif-hooks`).
//!
//!   vharness gen  <prop> --seed N --tier quick|thorough --out FILE
//!   vharness exec --in FILE --out FILE        (re-executes the op lines of FILE)
//!   vharness worker                           (internal: op executor under a watchdog)
//!
//! Output format: every op line is followed by one observation line `= ...`.
//! An observation may end in ` | key=value ...`: measurements that are not compared
//! with the model (time, allocation) but are visible to the monitors.
mod alloc;
mod c01;
mod c03;
mod c11;
mod c08;
mod c16;
mod c18;
mod c19b;
mod c02;
mod recdesc;
mod recdesc_c;
mod sim;
mod simdemo;
mod simop;
mod c19;
mod c13;
mod c12;
mod c07;
mod c17;
mod c14;
mod c15;
mod scen;
mod wirefmt;
mod util;
mod worker;

use std::io::{BufRead, Write};
use std::time::Duration;
use util::*;

#[global_allocator]
static GLOBAL: alloc::Counting = alloc::Counting;

/// Executes one op line on the real code.  `None` = the op line is malformed.
pub fn exec_line(line: &str) -> Option<String> {
    let mut t = Toks::new(line);
    let op = t.tok()?;
    if op.starts_with("txt-") {
        return c16::exec(op, &mut t);
    }
    if op == "decode" {
        return c01::exec(op, &mut t);
    }
    if op == "sim" || op == "sim2" {
        return simop::exec(op, &mut t);
    }
    if matches!(op, "rec-life" | "suppress" | "suppress-msg" | "cache-seq") {
        return c11::exec(op, &mut t);
    }
    if op == "c15-call" {
        return c15::exec_call(&mut t);
    }
    if matches!(op, "rec-compare" | "tiebreak" | "probe-time" | "probe-run" | "name-change" | "hostname-change" | "check-name" | "split-sub" | "escaped-labels") {
        return c08::exec(op, &mut t);
    }
    if matches!(op, "if-match" | "select" | "resolve-addr" | "select-at" | "valid-ip" | "addrs-on-intf") {
        return c18::exec(op, &mut t);
    }
    if op == "stress-shutdown" {
        return c14::exec(op, &mut t);
    }
    if op == "backoff" {
        return c19b::exec(op, &mut t);
    }
    if op == "encode" || op == "escape" || op == "parse-escaped" {
        return c02::exec(op, &mut t);
    }
    None
}

fn arg(args: &[String], name: &str) -> Option<String> {
    args.iter().position(|a| a == name).and_then(|i| args.get(i + 1).cloned())
}

const OP_TIMEOUT: Duration = Duration::from_secs(2);

fn main() {
    if std::env::var_os("VHARNESS_PANIC_MSG").is_some() {
        std::panic::set_hook(Box::new(|i| eprintln!("panic: {}", i)));
    } else {
        std::panic::set_hook(Box::new(|_| {}));
    }
    let args: Vec<String> = std::env::args().collect();
    let mode = args.get(1).map(String::as_str).unwrap_or("");
    match mode {
        "worker" => worker::worker_main(),
        "simdemo" => {
            if let Err(e) = simdemo::run() {
                eprintln!("simdemo failed: {}", e);
                std::process::exit(1);
            }
        }
        "gen" => {
            let prop = args.get(2).expect("property id").clone();
            let seed: u64 = arg(&args, "--seed").and_then(|s| s.parse().ok()).unwrap_or(1);
            let tier = arg(&args, "--tier").unwrap_or_else(|| "quick".into());
            let out = arg(&args, "--out").expect("--out");
            let mut w = std::io::BufWriter::new(std::fs::File::create(out).unwrap());
            let mut rng = Rng::new(seed);
            let mut bad = 0u64;
            let mut wk = worker::Worker::new();
            let mut lines: Vec<String> = Vec::new();
            {
                let mut emit = |line: String| lines.push(line);
                match prop.as_str() {
                    "C01" => c01::generate(&mut rng, &tier, &mut emit),
                    "C10" => {
                        c11::generate_c10(&mut rng, &tier, &mut emit);
                        c07::generate_c10(&mut rng, &tier, &mut emit);
                    }
                    "C11" => c11::generate_c11(&mut rng, &tier, &mut emit),
                    "C02" => c02::generate(&mut rng, &tier, &mut emit),
                    "C16" => c16::generate(&mut rng, &tier, &mut emit),
                    "C19" => {
                        c19b::generate(&mut rng, &tier, &mut emit);
                        c19::generate(&mut rng, &tier, &mut emit);
                    }
                    "C13" => c13::generate(&mut rng, &tier, &mut emit),
                    "C03" | "C04" | "C05" => c03::generate(&mut rng, &prop, &tier, &mut emit),
                    "C12" => c12::generate(&mut rng, &tier, &mut emit),
                    "C07" => c07::generate_c07(&mut rng, &tier, &mut emit),
                    "C09" => c07::generate_c09(&mut rng, &tier, &mut emit),
                    "C06" => c07::generate_c06(&mut rng, &tier, &mut emit),
                    "C14" => c14::generate(&mut rng, &tier, &mut emit),
                    "C15" => c15::generate(&mut rng, &tier, &mut emit),
                    "C17" => c17::generate_c17(&mut rng, &tier, &mut emit),
                    "C20" => c17::generate_c20(&mut rng, &tier, &mut emit),
                    "C08" => {
                        c08::generate(&mut rng, &tier, &mut emit);
                        c08::generate_daemon(&mut rng, &tier, &mut emit);
                    }
                    "C16" => c16::generate(&mut rng, &tier, &mut emit),
                    "C18" => {
                        c18::generate(&mut rng, &tier, &mut emit);
                        c18::generate_daemon(&mut rng, &tier, &mut emit);
                    }
                    _ => {
                        eprintln!("unknown property {}", prop);
                        std::process::exit(2);
                    }
                }
            }
            wk.exec_all(&lines, OP_TIMEOUT, |line, obs| {
                if obs == "bad-op" {
                    bad += 1;
                } else {
                    writeln!(w, "{}", line).unwrap();
                    writeln!(w, "= {}", obs).unwrap();
                }
            });
            w.flush().unwrap();
            if bad > 0 {
                eprintln!("harness: {} generated op lines were not executable", bad);
                std::process::exit(3);
            }
        }
        "exec" => {
            let inp = arg(&args, "--in").expect("--in");
            let out = arg(&args, "--out").expect("--out");
            let mut w = std::io::BufWriter::new(std::fs::File::create(out).unwrap());
            let f = std::io::BufReader::new(std::fs::File::open(inp).unwrap());
            let mut wk = worker::Worker::new();
            let lines: Vec<String> = f
                .lines()
                .map(|l| l.unwrap())
                .filter(|l| !(l.starts_with('=') || l.starts_with('#') || l.trim().is_empty()))
                .collect();
            wk.exec_all(&lines, OP_TIMEOUT, |line, obs| {
                writeln!(w, "{}", line).unwrap();
                writeln!(w, "= {}", obs).unwrap();
            });
            w.flush().unwrap();
        }
        _ => {
            eprintln!("usage: vharness gen <prop> --seed N --tier T --out F | exec --in F --out F");
            std::process::exit(2);
        }
    }
}
