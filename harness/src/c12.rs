//! C12: the daemon wakes itself for all time-driven work and never spins.
//! `sim2` ops run one history under two schedulers (event-driven / polled every 50 ms);
//! `sim` ops on a silent network are compared with the scheduler model's wake-ups.
use crate::scen::*;
use crate::util::*;

pub fn generate(r: &mut Rng, tier: &str, emit: &mut dyn FnMut(String)) {
    let n = if tier == "thorough" { 1500 } else { 150 };
    // responder side: probe schedule, announcements, goodbye repeats, retries after a lost
    // tiebreak, renames - every one of them is timed work the daemon must wake itself for
    for _ in 0..n / 3 {
        let tb = r.chance(1, 3);
        let k = crate::c07::Knobs {
            tag: "C12",
            topo: *r.pick(&[0u64, 1, 2, 3, 4, 4]),
            steps: r.range(2, 6),
            w_register: 4,
            w_rereg: if tb { 0 } else { 1 },
            w_unregister: 3,
            w_query: 1,
            w_tiebreak: if tb { 2 } else { 0 },
            w_conflict: if r.chance(1, 3) { 1 } else { 0 },
            w_jump: 0,
            shutdown: false,
            jitter: None,
        };
        emit(crate::c07::gen_history(r, &k).replacen("sim C12", "sim2 C12", 1));
    }
    // an auto-addressed service and a changing OS interface table: the interface check is the
    // LAST step of a loop iteration, the probes it starts on a new address must be woken for
    for _ in 0..n / 10 {
        emit(crate::c18::gen_auto_follow(r, "sim2 C12"));
    }
    for i in 0..n {
        if i % 5 == 3 {
            // hostname searches without any browse: the refresh marks of address records are
            // the only reason to wake up
            let st = r.range(2, 6);
            let tl = *r.pick(&[5_000u64, 12_000]);
            let s = gen_scripted_opts(r, "C12", st, tl, 3000, true).replacen("sim C12", "sim2 C12", 1);
            emit(s);
            continue;
        }
        if i % 5 == 4 {
            emit(gen_refresh_only(r));
            continue;
        }
        if i % 3 == 0 {
            let s = crate::c19::gen_silent(r).replacen("sim C19", "sim C12", 1);
            emit(s);
        } else if i % 3 == 1 {
            // scripted responder with short TTLs: refresh marks, expiries and follow-up
            // queries fall inside the horizon
            let st = r.range(3, 8);
            let tl = *r.pick(&[5_000u64, 12_000]);
            let s = gen_scripted(r, "C12", st, tl, 4000).replacen("sim C12", "sim2 C12", 1);
            emit(s);
        } else {
            let mut k = Knobs::base("C12");
            k.responders = 1 + r.below(2);
            k.steps = r.range(3, 8);
            k.p_stop = 1;
            k.p_resolve = 2;
            k.p_verify = 2;
            k.p_unregister = 3;
            k.p_shutdown = if r.chance(1, 4) { 1 } else { 0 };
            k.p_iface = if r.chance(1, 3) { 2 } else { 0 };
            k.v6 = r.chance(1, 4);
            // polling every 50 ms makes long tails expensive: keep the horizon short
            k.tail = *r.pick(&[3_000u64, 8_000, 15_000]);
            k.max_dt = 3000;
            let s = gen_world(r, &k).replacen("sim C12", "sim2 C12", 1);
            emit(s);
        }
    }
}

/// One search (a hostname search, a browse, or none at all with accept_unsolicited), one answer
/// with a short TTL, then silence until past the expiry: the refresh queries at 80/85/90/95 %
/// and the expiry are the only timed work; nothing else wakes the loop (interface check off).
pub fn gen_refresh_only(r: &mut Rng) -> String {
    let mut cmds: Vec<String> = vec![format!("daemon {}", ifaces_of(0, false))];
    cmds.push(format!("ipint 0 {}", r.pick(&[0u64, 100_000])));
    let mut now = 1_000_000u64;
    cmds.push(format!("run {}", now));
    let inst = gen_inst(r, 0);
    let ttl = *r.pick(&[2u32, 3, 5, 10, 15]);
    let t = Ttls { ptr: ttl, srv: ttl, txt: ttl, addr: ttl };
    let recs = recs_of(&inst, &t, r.chance(1, 2));
    let kind = r.below(4);
    match kind {
        0 | 1 => cmds.push(format!("resolve 0 1 {} none", hx(&inst.host))),
        2 => cmds.push(format!("browse 0 1 {}", hx(&inst.ty))),
        _ => cmds.push("accept 0 1".to_string()),
    }
    now += *r.pick(&[0u64, 10, 400, 1000, 1700]);
    cmds.push(format!("run {}", now));
    match kind {
        0 | 1 => cmds.push(format!("inject 0 2 1 192.168.1.50 5353 {}", response(&recs[3..], &[]))),
        _ => cmds.push(format!("inject 0 2 1 192.168.1.50 5353 {}", response(&recs[..1], &recs[1..]))),
    }
    if kind == 3 {
        // the search starts after the records were cached
        now += *r.pick(&[100u64, 900]);
        cmds.push(format!("run {}", now));
        cmds.push(format!("resolve 0 1 {} none", hx(&inst.host)));
    }
    now += ttl as u64 * 1000 + *r.pick(&[500u64, 1500]);
    cmds.push(format!("run {}", now));
    format!("sim2 C12 {}", cmds.join(" ; "))
}
