//! C12: the daemon wakes itself for all time-driven work and never spins.
//! `sim2` ops run one history under two schedulers (event-driven / polled every 50 ms);
//! `sim` ops on a silent network are compared with the scheduler model's wake-ups.
use crate::scen::*;
use crate::util::*;

pub fn generate(r: &mut Rng, tier: &str, emit: &mut dyn FnMut(String)) {
    let n = if tier == "thorough" { 1500 } else { 150 };
    for i in 0..n {
        if i % 3 == 0 {
            let s = crate::c19::gen_silent(r).replacen("sim C19", "sim C12", 1);
            emit(s);
        } else if i % 3 == 1 {
            // scripted responder with short TTLs: refresh marks, expiries and follow-up
            // queries fall inside the horizon
            let st = r.range(3, 8);
            let tl = *r.pick(&[5_000u64, 12_000]);
            let s = gen_scripted(r, "C12", st, tl, 4000).replacen("sim C12", "sim2 C12", 1);
            emit(s);
        } else {
            let mut k = Knobs::base("C12");
            k.responders = 1 + r.below(2);
            k.steps = r.range(3, 8);
            k.p_stop = 1;
            k.p_resolve = 2;
            k.p_verify = 2;
            k.p_unregister = 3;
            k.p_shutdown = if r.chance(1, 4) { 1 } else { 0 };
            k.p_iface = if r.chance(1, 3) { 2 } else { 0 };
            k.v6 = r.chance(1, 4);
            // polling every 50 ms makes long tails expensive: keep the horizon short
            k.tail = *r.pick(&[3_000u64, 8_000, 15_000]);
            k.max_dt = 3000;
            let s = gen_world(r, &k).replacen("sim C12", "sim2 C12", 1);
            emit(s);
        }
    }
}
