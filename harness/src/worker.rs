//! Every op is executed in a worker subprocess (`vharness worker`) under a watchdog, so
//! that a hang, an abort or runaway allocation of the code under test becomes an
//! observation (`hang` / `abort`) instead of taking the run down.
use std::io::{BufRead, BufReader, Write};
use std::process::{Child, ChildStdin, Command, Stdio};
use std::sync::mpsc::{channel, Receiver};
use std::time::Duration;

pub struct Worker {
    child: Child,
    stdin: ChildStdin,
    rx: Receiver<String>,
    pub restarts: u64,
    pub hangs: u64,
}

/// After this many hangs the rest of a run is not executed (the verdict is clear and every
/// further hang costs a full watchdog period).
pub const MAX_HANGS: u64 = 5;

fn spawn() -> (Child, ChildStdin, Receiver<String>) {
    let exe = std::env::current_exe().unwrap();
    let mut child = Command::new(exe)
        .arg("worker")
        .stdin(Stdio::piped())
        .stdout(Stdio::piped())
        .stderr(Stdio::null())
        .spawn()
        .expect("spawn worker");
    let stdin = child.stdin.take().unwrap();
    let stdout = child.stdout.take().unwrap();
    let (tx, rx) = channel();
    std::thread::spawn(move || {
        let r = BufReader::new(stdout);
        for line in r.lines() {
            match line {
                Ok(l) => {
                    if tx.send(l).is_err() {
                        break;
                    }
                }
                Err(_) => break,
            }
        }
    });
    (child, stdin, rx)
}

/// Whole daemon histories take longer than component ops.
fn timeout_for(line: &str, base: Duration) -> Duration {
    if line.starts_with("sim") || line.starts_with("backoff") || line.starts_with("stress-") {
        Duration::from_secs(90)
    } else {
        base
    }
}

impl Worker {
    pub fn new() -> Self {
        let (child, stdin, rx) = spawn();
        Worker { child, stdin, rx, restarts: 0, hangs: 0 }
    }

    fn restart(&mut self) {
        let _ = self.child.kill();
        let _ = self.child.wait();
        let (child, stdin, rx) = spawn();
        self.child = child;
        self.stdin = stdin;
        self.rx = rx;
        self.restarts += 1;
    }

    /// Executes one op line; `hang` after `timeout`, `abort` if the worker died.
    pub fn exec(&mut self, line: &str, timeout: Duration) -> String {
        let timeout = timeout_for(line, timeout);
        if writeln!(self.stdin, "{}", line).and_then(|_| self.stdin.flush()).is_err() {
            self.restart();
            return "abort".to_string();
        }
        match self.rx.recv_timeout(timeout) {
            Ok(l) => l,
            Err(std::sync::mpsc::RecvTimeoutError::Timeout) => {
                self.restart();
                self.hangs += 1;
                "hang".to_string()
            }
            Err(_) => {
                self.restart();
                "abort".to_string()
            }
        }
    }
}

impl Worker {
    /// Executes many op lines, pipelined in windows; same observations as `exec`.
    pub fn exec_all(&mut self, lines: &[String], timeout: Duration, mut sink: impl FnMut(&str, String)) {
        const WINDOW: usize = 128;
        let mut i = 0;
        while i < lines.len() && self.hangs < MAX_HANGS {
            let end = (i + WINDOW).min(lines.len());
            let mut ok = true;
            for l in &lines[i..end] {
                if writeln!(self.stdin, "{}", l).is_err() {
                    ok = false;
                    break;
                }
            }
            if ok {
                ok = self.stdin.flush().is_ok();
            }
            if !ok {
                // worker is gone: fall back to one-at-a-time for this window
                self.restart();
                for l in &lines[i..end] {
                    let o = self.exec(l, timeout);
                    sink(l, o);
                }
                i = end;
                continue;
            }
            let mut k = i;
            while k < end {
                match self.rx.recv_timeout(timeout_for(&lines[k], timeout)) {
                    Ok(o) => {
                        sink(&lines[k], o);
                        k += 1;
                    }
                    Err(e) => {
                        let obs = if matches!(e, std::sync::mpsc::RecvTimeoutError::Timeout) { "hang" } else { "abort" };
                        if obs == "hang" {
                            self.hangs += 1;
                        }
                        self.restart();
                        sink(&lines[k], obs.to_string());
                        k += 1;
                        // the rest of the window was lost with the worker: redo it singly
                        while k < end && self.hangs < MAX_HANGS {
                            let o = self.exec(&lines[k], timeout);
                            sink(&lines[k], o);
                            k += 1;
                        }
                    }
                }
            }
            i = end;
        }
    }
}

impl Drop for Worker {
    fn drop(&mut self) {
        let _ = self.child.kill();
        let _ = self.child.wait();
    }
}

/// Body of `vharness worker`: one observation line per op line.
pub fn worker_main() {
    // cap the address space so that runaway allocation aborts quickly
    unsafe {
        let lim = libc::rlimit { rlim_cur: 4 << 30, rlim_max: 4 << 30 };
        libc::setrlimit(libc::RLIMIT_AS, &lim);
    }
    let stdin = std::io::stdin();
    let stdout = std::io::stdout();
    let mut out = stdout.lock();
    for line in stdin.lock().lines() {
        let line = match line {
            Ok(l) => l,
            Err(_) => break,
        };
        let obs = crate::exec_line(&line).unwrap_or_else(|| "bad-op".to_string());
        if writeln!(out, "{}", obs).and_then(|_| out.flush()).is_err() {
            break;
        }
    }
}
