//! C02: the wire encoder.  Ops:
//!
//!   encode <flags> <id> <nq> (<namehex> <qtype>)* <nan> (<recdesc> <now>)* <nauth> <recdesc>* <nadd> <recdesc>*
//!       observation:  ok <npackets> <hex>* ; (ok <msg toks> | err | panic)*   |  panic
//!       (after the `;`: what the crate's own decoder reads from each packet)
//!       measurements: ptrs=<compression pointers emitted> pk=<packets> left=<records not carried> max=<largest packet>
//!   escape <hex>            escape_instance_name          observation: ok <hex>
//!   parse-escaped <hex>     parse_escaped_name            observation: ok <n> <hex>*
//!
//! Records are created at the virtual time `CREATED` (the crate's clock is set for the call).
use crate::recdesc_c::*;
use crate::util::*;
use crate::wirefmt::*;
use mdns_sd::verif::parser::{self, MsgDesc, RDataView, RecDesc};
use mdns_sd::verif::{clock, info};

/// `created` of every record of an `encode` op, in ms (same constant in `Driver/C02.lean`)
pub const CREATED: u64 = 1_000_000_000;
const MAX: usize = 8972;

fn read_msgdesc(t: &mut Toks) -> Option<MsgDesc> {
    let flags = u16::try_from(t.nat()?).ok()?;
    let id = u16::try_from(t.nat()?).ok()?;
    let mut d = MsgDesc { flags, id, ..Default::default() };
    for _ in 0..t.nat()? {
        let name = t.string()?;
        let ty = u16::try_from(t.nat()?).ok()?;
        d.questions.push((name, ty));
    }
    for _ in 0..t.nat()? {
        let r = read_recdesc(t)?;
        let now = t.nat()?;
        d.answers.push((r, now));
    }
    for _ in 0..t.nat()? {
        d.authorities.push(read_recdesc(t)?);
    }
    for _ in 0..t.nat()? {
        d.additionals.push(read_recdesc(t)?);
    }
    if t.tok().is_some() {
        return None;
    }
    Some(d)
}

fn msgdesc_toks(d: &MsgDesc) -> String {
    let mut s = format!("{} {} {}", d.flags, d.id, d.questions.len());
    for (n, ty) in &d.questions {
        s.push_str(&format!(" {} {}", hex(n.as_bytes()), ty));
    }
    s.push_str(&format!(" {}", d.answers.len()));
    for (r, now) in &d.answers {
        s.push_str(&format!(" {} {}", recdesc_toks(r), now));
    }
    for sec in [&d.authorities, &d.additionals] {
        s.push_str(&format!(" {}", sec.len()));
        for r in sec.iter() {
            s.push(' ');
            s.push_str(&recdesc_toks(r));
        }
    }
    s
}

/// the crate's encoder on a description, records created at `CREATED`
fn encode_at_created(d: &MsgDesc) -> Option<Option<Vec<Vec<u8>>>> {
    clock::set(Some(CREATED));
    let d2 = d.clone();
    let r = guarded(move || parser::encode(&d2));
    clock::set(None);
    r
}

// -------------------------------------------------------- measurements (not compared)

fn skip_name(p: &[u8], mut o: usize, ptrs: &mut u64) -> Option<usize> {
    loop {
        let b = *p.get(o)?;
        if b == 0 {
            return Some(o + 1);
        }
        if b & 0xC0 == 0xC0 {
            *ptrs += 1;
            return Some(o + 2);
        }
        if b & 0xC0 != 0 {
            return None;
        }
        o += 1 + b as usize;
    }
}

/// (compression pointers, entries) of a packet, by walking its entries
fn walk(p: &[u8]) -> Option<(u64, usize)> {
    let u16at = |o: usize| -> Option<usize> { Some(((*p.get(o)? as usize) << 8) | *p.get(o + 1)? as usize) };
    let (nq, nr) = (u16at(4)?, u16at(6)? + u16at(8)? + u16at(10)?);
    let mut o = 12;
    let mut ptrs = 0;
    for _ in 0..nq {
        o = skip_name(p, o, &mut ptrs)? + 4;
    }
    for _ in 0..nr {
        o = skip_name(p, o, &mut ptrs)?;
        let ty = u16at(o)?;
        let rdlen = u16at(o + 8)?;
        o += 10;
        match ty {
            12 | 5 => {
                skip_name(p, o, &mut ptrs)?;
            }
            33 => {
                skip_name(p, o + 6, &mut ptrs)?;
            }
            _ => {}
        }
        o += rdlen;
    }
    Some((ptrs, nr))
}

pub fn exec(op: &str, t: &mut Toks) -> Option<String> {
    match op {
        "encode" => {
            let d = read_msgdesc(t)?;
            // A label of more than 63 bytes is outside the modelled domain: the encoder cuts
            // it (repair of the `assert!` in write_utf8); only "does not panic" is observed.
            let long_label = {
                let mut names: Vec<&str> = d.questions.iter().map(|q| q.0.as_str()).collect();
                for r in d.answers.iter().map(|a| &a.0).chain(d.authorities.iter()).chain(d.additionals.iter()) {
                    names.push(r.name.as_str());
                    match &r.rdata {
                        RDataView::Ptr(n) => names.push(n.as_str()),
                        RDataView::Srv { host, .. } => names.push(host.as_str()),
                        _ => {}
                    }
                }
                names.iter().any(|n| {
                    parser::parse_escaped_name(n.strip_suffix('.').unwrap_or(n)).iter().any(|l| l.len() > 63)
                })
            };
            if long_label {
                return Some(match encode_at_created(&d) {
                    None => "long-label panic".to_string(),
                    Some(None) => return None,
                    Some(Some(_)) => "long-label ok".to_string(),
                });
            }
            let pkts = match encode_at_created(&d) {
                None => return Some("panic".to_string()),
                Some(None) => return None,
                Some(Some(p)) => p,
            };
            let mut s = format!("ok {}", pkts.len());
            for p in &pkts {
                s.push(' ');
                s.push_str(&hex(p));
            }
            s.push_str(" ;");
            let (mut ptrs, mut carried, mut max) = (0u64, 0usize, 0usize);
            for p in &pkts {
                let p2 = p.clone();
                match guarded(move || parser::decode(&p2, "eth0", 2)) {
                    None => s.push_str(" panic"),
                    Some(None) => s.push_str(" err"),
                    Some(Some(m)) => {
                        s.push_str(" ok ");
                        s.push_str(&msg_toks(&m));
                    }
                }
                if let Some((n, e)) = walk(p) {
                    ptrs += n;
                    carried += e;
                }
                max = max.max(p.len());
            }
            let added = d.answers.len() + d.authorities.len() + d.additionals.len();
            Some(format!("{} | ptrs={} pk={} left={} max={}", s, ptrs, pkts.len(), added.saturating_sub(carried), max))
        }
        "escape" => {
            let s = t.string()?;
            Some(match guarded(move || info::escape_instance(&s)) {
                None => "panic".to_string(),
                Some(e) => format!("ok {}", hex(e.as_bytes())),
            })
        }
        "parse-escaped" => {
            let s = t.string()?;
            Some(match guarded(move || parser::parse_escaped_name(&s)) {
                None => "panic".to_string(),
                Some(ls) => {
                    let mut o = format!("ok {}", ls.len());
                    for l in ls {
                        o.push(' ');
                        o.push_str(&hex(l.as_bytes()));
                    }
                    o
                }
            })
        }
        _ => None,
    }
}

// --------------------------------------------------------------------------- generator

const PLAIN: &[&str] = &["a", "b", "c", "local", "_tcp", "_udp", "_http", "_ipp", "host", "example", "big", "zz", "q", "t", "srv1", "printer"];
/// labels (raw, unescaped) with '.', '\\', multi-byte UTF-8
const SPECIAL: &[&str] = &[
    "My.Svc", "x\\y", "a.b", "a\\.b", "caf\u{e9}", "\u{65e5}\u{672c}\u{8a9e}", "\u{1f980}", ".", "\\", "..", "\\\\", "end\\", ".start",
    "tr.ail.", "\\.", "a\\\\b", "Living Room (2)",
];

fn long_labels() -> Vec<String> {
    vec![
        "z".repeat(63),
        "y".repeat(62),
        "\u{e9}".repeat(31),                  // 62 bytes
        format!("{}x", "\u{e9}".repeat(31)),  // 63 bytes
        format!("{}.", "d".repeat(62)),       // 63 bytes, last one a dot
        format!("\\{}", "s".repeat(62)),      // 63 bytes, first one a backslash
        "k".to_string(),
    ]
}

fn bad_labels() -> Vec<String> {
    vec!["w".repeat(64), "\u{e9}".repeat(32), "v".repeat(65), "u".repeat(200), format!("{}.", "d".repeat(63))]
}

/// RFC 6763 escaping of one label (what a caller of the API does before joining with '.')
fn esc(label: &str) -> String {
    label.replace('\\', "\\\\").replace('.', "\\.")
}

fn name_of(labels: &[String]) -> String {
    let mut s = String::new();
    for l in labels {
        s.push_str(&esc(l));
        s.push('.');
    }
    s
}

fn wire_len(labels: &[String]) -> usize {
    labels.iter().map(|l| l.len() + 1).sum::<usize>() + 1
}

fn suffixes() -> Vec<Vec<String>> {
    let v = |xs: &[&str]| xs.iter().map(|s| s.to_string()).collect::<Vec<_>>();
    vec![
        v(&["local"]),
        v(&["_tcp", "local"]),
        v(&["_http", "_tcp", "local"]),
        v(&["_udp", "local"]),
        v(&["big", "example"]),
        v(&["My.Svc", "_x", "_udp", "local"]),
        v(&["a.b", "local"]),
        v(&["a", "b", "local"]),
        v(&["x\\y", "local"]),
        vec!["z".repeat(63), "local".to_string()],
        vec!["\u{e9}".repeat(31), "_tcp".to_string(), "local".to_string()],
        v(&[]),
    ]
}

fn gen_label(r: &mut Rng) -> String {
    match r.below(12) {
        0..=6 => r.pick(PLAIN).to_string(),
        7..=9 => r.pick(SPECIAL).to_string(),
        10 => r.pick(&long_labels()).clone(),
        _ => {
            // random UTF-8 of random length 1..=63 bytes over a small alphabet incl. specials
            let n = r.range(1, 63) as usize;
            let mut s = String::new();
            loop {
                let c = *r.pick(&['a', 'b', '.', '\\', '\u{e9}', '\u{4e2d}', '-', ' ', '0']);
                if s.len() + c.len_utf8() > n {
                    break;
                }
                s.push(c);
            }
            if s.is_empty() {
                s.push('a');
            }
            s
        }
    }
}

/// label sequence of a well-formed name (every label 1..=63 bytes, at most 255 octets)
fn gen_labels(r: &mut Rng) -> Vec<String> {
    let mut ls: Vec<String> = (0..r.below(3)).map(|_| gen_label(r)).collect();
    ls.extend(r.pick(&suffixes()).iter().cloned());
    while wire_len(&ls) > 255 {
        ls.remove(0);
    }
    ls
}

fn gen_name(r: &mut Rng) -> String {
    let ls = gen_labels(r);
    let mut n = name_of(&ls);
    if r.chance(1, 8) && !n.is_empty() {
        n.pop(); // API names without the trailing dot
    }
    n
}

/// textual names outside the well-formed share: empty labels, trailing backslash, unknown
/// escapes, 64-byte labels, more than 255 octets
fn gen_odd_name(r: &mut Rng) -> String {
    match r.below(12) {
        0 => "a..b.local.".into(),
        1 => ".local.".into(),
        2 => "a\\".into(),
        3 => "a\\.".into(),
        4 => "a\\x.lo\\cal.".into(),
        5 => "".into(),
        6 => ".".into(),
        7 => "..".into(),
        8 => "\\".into(),
        9 => {
            let mut ls = gen_labels(r);
            ls.insert(0, r.pick(&bad_labels()).clone());
            name_of(&ls)
        }
        10 => {
            // 254 / 255 / 256 / 257 / 300 octets on the wire
            let target = *r.pick(&[254usize, 255, 256, 257, 300]);
            let mut ls = vec!["local".to_string()];
            while wire_len(&ls) + 64 <= target {
                ls.insert(0, r.pick(&["o", "p", "n"]).repeat(63));
            }
            let rest = target - wire_len(&ls);
            if rest >= 2 {
                ls.insert(0, "m".repeat(rest - 1));
            }
            name_of(&ls)
        }
        _ => format!("{}.{}", r.pick(&["x\\", "\\x", "a\\\\\\", "..a", "a\\.\\"]), gen_name(r)),
    }
}

fn gen_ttl(r: &mut Rng) -> u32 {
    match r.below(10) {
        0 => 0,
        1 => 1,
        2 => 120,
        3 => 4500,
        4 => 0x7FFF_FFFF,
        5 => 0x8000_0000,
        6 => u32::MAX,
        7 => u32::MAX - 1,
        _ => r.next() as u32,
    }
}

fn gen_class(r: &mut Rng) -> u16 {
    match r.below(10) {
        0..=3 => 1,
        4..=7 => 0x8001,
        8 => *r.pick(&[0u16, 0x7FFF, 0xFFFF, 0x8000, 255, 3]),
        _ => r.next() as u16,
    }
}

fn gen_u16(r: &mut Rng) -> u16 {
    match r.below(5) {
        0 => 0,
        1 => 65535,
        2 => 8080,
        _ => r.next() as u16,
    }
}

fn txt_bytes(r: &mut Rng, n: usize) -> Vec<u8> {
    // proper character-strings where possible, but any bytes are legal RDATA
    let mut v = Vec::with_capacity(n);
    while v.len() < n {
        let k = (n - v.len() - 1).min(r.range(0, 255) as usize);
        v.push(k as u8);
        for _ in 0..k {
            v.push(*r.pick(&[b'a', b'=', b'1', 0xC0, 0x0C, 0x00, b'.']));
        }
    }
    v
}

fn gen_rec_with(r: &mut Rng, name: String, other: &mut dyn FnMut(&mut Rng) -> String) -> RecDesc {
    let (ty, rdata) = match r.below(7) {
        0 => (1, addr(std::net::IpAddr::V4(std::net::Ipv4Addr::from(r.next() as u32)))),
        1 => (28, addr(std::net::IpAddr::V6(std::net::Ipv6Addr::from(((r.next() as u128) << 64) | r.next() as u128)))),
        2 | 3 => (if r.chance(1, 12) { 5 } else { 12 }, RDataView::Ptr(other(r))),
        4 => (33, RDataView::Srv { priority: gen_u16(r), weight: gen_u16(r), port: gen_u16(r), host: other(r) }),
        5 => (12, RDataView::Ptr(name.clone())),
        _ => {
            let n = *r.pick(&[0usize, 1, 4, 20, 40, 255, 256, 300]);
            (16, RDataView::Txt(txt_bytes(r, n)))
        }
    };
    RecDesc { name, ty, class: gen_class(r), ttl: gen_ttl(r), rdata }
}

fn gen_rec(r: &mut Rng) -> RecDesc {
    let n = gen_name(r);
    gen_rec_with(r, n, &mut |r| gen_name(r))
}

fn gen_now(r: &mut Rng, ttl: u32) -> u64 {
    if !r.chance(1, 6) {
        return 0;
    }
    let life = ttl as u64 * 1000;
    CREATED
        + match r.below(9) {
            0 => 0,
            1 => 1,
            2 => 999,
            3 => 1000,
            4 => 1001,
            5 => life.saturating_sub(1),
            6 => life,
            7 => life + 1,
            _ => life / 2,
        }
}

fn gen_flags(r: &mut Rng) -> u16 {
    match r.below(10) {
        0..=3 => 0,
        4..=7 => 0x8400,
        8 => *r.pick(&[0x8000u16, 0x0200, 0x8600, 0x0100, 0x7FFF, 0xFFFF]),
        _ => r.next() as u16,
    }
}

fn txt_rec(name: &str, n: usize, r: &mut Rng) -> RecDesc {
    RecDesc { name: name.to_string(), ty: 16, class: gen_class(r), ttl: gen_ttl(r), rdata: RDataView::Txt(txt_bytes(r, n)) }
}

fn first_packet_len(d: &MsgDesc) -> usize {
    match encode_at_created(d) {
        Some(Some(p)) if !p.is_empty() => p[0].len(),
        _ => 12,
    }
}

fn push_into(d: &mut MsgDesc, sec: u64, rec: RecDesc) {
    match sec {
        0 => d.answers.push((rec, 0)),
        1 => d.authorities.push(rec),
        _ => d.additionals.push(rec),
    }
}

/// small messages over all sections
fn case_small(r: &mut Rng) -> MsgDesc {
    let mut d = MsgDesc { flags: gen_flags(r), id: if r.chance(1, 2) { 0 } else { r.next() as u16 }, ..Default::default() };
    for _ in 0..r.below(4) {
        d.questions.push((gen_name(r), *r.pick(&[12u16, 255, 1, 28, 33, 16, 47, 13, 5])));
    }
    for _ in 0..r.below(6) {
        let x = gen_rec(r);
        let now = gen_now(r, x.ttl);
        d.answers.push((x, now));
    }
    for _ in 0..r.below(4) {
        d.authorities.push(gen_rec(r));
    }
    for _ in 0..r.below(6) {
        d.additionals.push(gen_rec(r));
    }
    d
}

/// A packet filled up to a small gap, then a record that does not fit and whose names share
/// suffixes with the records that follow it (roll-back must forget the victim's names).
fn case_rollback(r: &mut Rng) -> MsgDesc {
    let query = r.chance(1, 2);
    let mut d = MsgDesc { flags: if query { 0 } else { 0x8400 }, ..Default::default() };
    if query && r.chance(1, 2) {
        d.questions.push(("_http._tcp.local.".into(), 12));
    }
    let sec = r.below(3);
    let z63 = "z".repeat(63);
    let stems: [(&str, String); 3] = [
        ("big.example.", "big.example.".to_string()),
        ("My\\.Svc._x._udp.local.", "My\\.Svc._x._udp.local.".to_string()),
        ("z63.local.", format!("{}.local.", z63)),
    ];
    let stem = r.pick(&stems).1.clone();
    let gap = r.range(30, 140) as usize;
    // filler under a name sharing the stem
    let before = {
        let mut probe = d.clone();
        push_into(&mut probe, sec, txt_rec(&format!("fill.{}", stem), 0, r));
        first_packet_len(&probe)
    };
    let fill = MAX.saturating_sub(before + gap);
    push_into(&mut d, sec, txt_rec(&format!("fill.{}", stem), fill, r));
    // the victim: larger than the gap, introduces new names under the stem
    let victim = match r.below(3) {
        0 => txt_rec(&format!("zz.{}", stem), r.range(200, 2000) as usize, r),
        1 => RecDesc {
            name: format!("zz.{}", stem),
            ty: 12,
            class: 1,
            ttl: gen_ttl(r),
            rdata: RDataView::Ptr(format!("{}.{}.t.{}", "y".repeat(62), "x".repeat(63), stem)),
        },
        _ => RecDesc {
            name: format!("t.{}", stem),
            ty: 33,
            class: 0x8001,
            ttl: gen_ttl(r),
            rdata: RDataView::Srv { priority: 0, weight: 0, port: 80, host: format!("{}.{}.zz.{}", "h".repeat(63), "g".repeat(63), stem) },
        },
    };
    push_into(&mut d, sec, victim);
    // followers that fit into the gap and reuse the victim's names / suffixes
    for _ in 0..r.range(1, 3) {
        let f = match r.below(5) {
            0 => RecDesc { name: format!("q.{}", stem), ty: 12, class: 1, ttl: 120, rdata: RDataView::Ptr(format!("t.{}", stem)) },
            1 => RecDesc { name: format!("zz.{}", stem), ty: 1, class: 0x8001, ttl: 120, rdata: addr("10.0.0.1".parse().unwrap()) },
            2 => RecDesc { name: format!("t.{}", stem), ty: 12, class: 1, ttl: 4500, rdata: RDataView::Ptr(format!("zz.{}", stem)) },
            3 => RecDesc { name: format!("zz.{}", stem), ty: 33, class: 1, ttl: 1, rdata: RDataView::Srv { priority: 1, weight: 2, port: 3, host: format!("t.{}", stem) } },
            _ => gen_rec(r),
        };
        let s2 = if r.chance(1, 4) { 2 } else { sec };
        push_into(&mut d, s2.max(sec), f);
    }
    d
}

/// many small records: from a fraction of the limit to four times the limit
fn case_many(r: &mut Rng) -> MsgDesc {
    let query = r.chance(1, 2);
    let mut d = MsgDesc { flags: if query { 0 } else { 0x8400 }, ..Default::default() };
    if query {
        d.questions.push((gen_name(r), 12));
    }
    let n = *r.pick(&[40u64, 80, 150, 300, 420, 420, 600, 900, 1500]);
    let hosts: Vec<String> = (0..8).map(|_| gen_name(r)).collect();
    for k in 0..n {
        let owner = format!("i{}.{}", k % 97, r.pick(&hosts));
        let x = gen_rec_with(r, owner, &mut |r| r.pick(&hosts).clone());
        let sec = match r.below(8) {
            0 => 0,
            1 => 1,
            _ => if query { 2 } else { r.below(3) },
        };
        push_into(&mut d, sec, x);
    }
    d
}

/// a few large TXT records; totals up to four times the limit
fn case_large_txt(r: &mut Rng) -> MsgDesc {
    let query = r.chance(2, 3);
    let mut d = MsgDesc { flags: if query { 0 } else { 0x8400 }, ..Default::default() };
    if query && r.chance(2, 3) {
        d.questions.push(("_ipp._tcp.local.".into(), 12));
    }
    for _ in 0..r.range(1, 8) {
        // owner "big.example." is 13 bytes: 12 + 13 + 10 + 8937 = 8972
        let n = match r.below(10) {
            0 => 8936,
            1 => 8937,
            2 => 8938,
            3 => 9000,
            4 => 8972,
            5 => r.range(4000, 8900) as usize,
            _ => r.range(500, 4000) as usize,
        };
        let owner = if r.chance(1, 2) { "big.example.".to_string() } else { gen_name(r) };
        let x = txt_rec(&owner, n, r);
        let sec = if query { if r.chance(1, 6) { 0 } else { 2 } } else { r.below(3) };
        push_into(&mut d, sec, x);
        if r.chance(1, 2) {
            let y = gen_rec(r);
            push_into(&mut d, sec, y);
        }
    }
    d
}

/// first packet calibrated to 8972 - 1 / 8972 / 8972 + 1 bytes
fn case_boundary(r: &mut Rng) -> MsgDesc {
    let mut d = case_small(r);
    for a in d.answers.iter_mut() {
        a.1 = 0;
    }
    let sec = r.below(3);
    let delta = r.range(0, 2) as usize; // total = 8971 + delta
    let owner = "u9.boundary.";
    let mut probe = d.clone();
    push_into(&mut probe, sec, txt_rec(owner, 0, r));
    let before = first_packet_len(&probe);
    let n = (MAX - 1 + delta).saturating_sub(before);
    push_into(&mut d, sec, txt_rec(owner, n, r));
    if r.chance(1, 2) {
        let y = gen_rec(r);
        push_into(&mut d, sec, y);
    }
    d
}

/// Questions only: the question section is never size-checked (D17).  From just below the
/// limit to beyond 16384 bytes (offsets that a compression pointer cannot express).
fn case_questions(r: &mut Rng) -> MsgDesc {
    let mut d = MsgDesc { flags: 0, ..Default::default() };
    let n = *r.pick(&[300u64, 380, 395, 400, 600, 600, 1200, 1800]);
    let suffix = r.pick(&["_tcp.local.", "q.example.", "My\\.Svc._x._udp.local."]).to_string();
    for k in 0..n {
        // repeat some names late so that whole-name pointers to large offsets occur
        let k2 = if r.chance(1, 10) { k.saturating_sub(r.below(40)) } else { k };
        d.questions.push((format!("question-{:05}.{}", k2, suffix), 12));
    }
    d
}

/// queries with known answers (aged TTLs) and many questions, inside the limit
fn case_known_answers(r: &mut Rng) -> MsgDesc {
    let mut d = MsgDesc { flags: 0, ..Default::default() };
    for _ in 0..r.range(1, 40) {
        d.questions.push((gen_name(r), 12));
    }
    for _ in 0..r.range(0, 30) {
        let x = gen_rec(r);
        let life = x.ttl as u64 * 1000;
        let now = match r.below(6) {
            0 => 0,
            1 => CREATED + life, // expired: not added
            2 => CREATED + life.saturating_sub(1),
            3 => CREATED + life + 5000,
            _ => CREATED + r.below(life + 1),
        };
        d.answers.push((x, now));
    }
    d
}

/// names outside the well-formed share
fn case_odd(r: &mut Rng) -> MsgDesc {
    let mut d = case_small(r);
    let n = gen_odd_name(r);
    match r.below(5) {
        0 => d.questions.push((n, 12)),
        1 => d.answers.push((RecDesc { name: n, ty: 1, class: 1, ttl: 120, rdata: addr("10.0.0.9".parse().unwrap()) }, 0)),
        2 => d.additionals.push(RecDesc { name: "x.local.".into(), ty: 12, class: 1, ttl: 120, rdata: RDataView::Ptr(n) }),
        3 => d.authorities.push(RecDesc { name: "x.local.".into(), ty: 33, class: 1, ttl: 120, rdata: RDataView::Srv { priority: 0, weight: 0, port: 1, host: n } }),
        _ => d.additionals.insert(0, RecDesc { name: n.clone(), ty: 12, class: 1, ttl: 120, rdata: RDataView::Ptr(n) }),
    }
    d
}

pub fn generate(r: &mut Rng, tier: &str, emit: &mut dyn FnMut(String)) {
    let thorough = tier == "thorough";
    let n = if thorough { 28_800 } else { 2_880 };
    for i in 0..n {
        let d = match i % 24 {
            0..=9 => case_small(r),
            10..=12 => case_rollback(r),
            13 => {
                if i % 48 == 13 {
                    case_many(r)
                } else {
                    case_large_txt(r)
                }
            }
            14 => case_large_txt(r),
            15 | 16 => case_boundary(r),
            17 | 18 => case_known_answers(r),
            19 | 20 => case_odd(r),
            21 => {
                if i % 192 == 21 {
                    case_questions(r)
                } else {
                    case_rollback(r)
                }
            }
            _ => {
                // escape / parse-escaped ops
                let l = if r.chance(1, 6) { gen_odd_name(r) } else { gen_label(r) };
                emit(format!("escape {}", hex(l.as_bytes())));
                let nm = if r.chance(1, 3) { gen_odd_name(r) } else { gen_name(r) };
                emit(format!("parse-escaped {}", hex(nm.as_bytes())));
                // the escaped label in front of a name reads back as that label
                let nm2 = format!("{}.{}", esc(&l), gen_name(r));
                emit(format!("parse-escaped {}", hex(nm2.as_bytes())));
                continue;
            }
        };
        emit(format!("encode {}", msgdesc_toks(&d)));
    }
}
