//! C07 / C09 / C06: histories of ONE daemon with registrations, re-registrations,
//! unregistrations, injected queries (every question type, known answers, both source
//! ports), injected probe queries (tiebreaking) and responses (conflicts), monitors and
//! shutdown, at times around the protocol constants (120, 250, 750, 1000 ms) and under
//! every start jitter.  These are the histories the responder model
//! (lean/Mdns/Model/Responder.lean) predicts exactly.
use crate::scen::{hx, TYPES};
use crate::util::*;
use mdns_sd::verif::parser::{encode, MsgDesc, RDataView, RecDesc};
use std::net::IpAddr;

#[derive(Clone)]
pub struct Svc {
    /// type as given to `ServiceInfo::new` (may carry a subtype)
    pub ty_arg: String,
    pub ty: String,
    pub sub: Option<String>,
    pub inst: String,
    pub host: String,
    pub port: u16,
    pub ips: Vec<String>,
    pub props: Vec<(String, Option<String>)>,
    pub probe: bool,
    pub auto: bool,
}

fn escape(inst: &str) -> String {
    inst.replace('\\', "\\\\").replace('.', "\\.")
}

impl Svc {
    pub fn fullname(&self) -> String {
        format!("{}.{}", escape(&self.inst), self.ty)
    }
    pub fn txt(&self) -> Vec<u8> {
        let mut b = vec![];
        for (k, v) in &self.props {
            let mut s = k.clone().into_bytes();
            if let Some(v) = v {
                s.push(b'=');
                s.extend(v.as_bytes());
            }
            b.push(s.len() as u8);
            b.extend(s);
        }
        if b.is_empty() {
            b.push(0);
        }
        b
    }
    pub fn register_cmd(&self) -> String {
        let mut props = format!("{}", self.props.len());
        for (k, v) in &self.props {
            props.push_str(&format!(
                " {} {}",
                hx(k),
                match v {
                    Some(v) => format!("some {}", hx(v)),
                    None => "none".to_string(),
                }
            ));
        }
        format!(
            "register 0 {} {} {} {} {} {} {} {} {}",
            hx(&self.ty_arg),
            hx(&self.inst),
            hx(&self.host),
            self.port,
            self.ips.len(),
            self.ips.join(" "),
            props,
            b(self.probe),
            b(self.auto)
        )
        .replace("  ", " ")
    }
}

#[derive(Clone)]
pub struct Topo {
    /// (name, index, ip, prefix)
    pub ifs: Vec<(&'static str, u32, &'static str, u8)>,
}

impl Topo {
    pub fn new(kind: u64) -> Topo {
        if kind == 4 {
            // an IPv6-only host
            return Topo { ifs: vec![("eth0", 2, "fe80::10", 64)] };
        }
        let mut ifs = vec![("eth0", 2, "192.168.1.10", 24)];
        if kind >= 1 {
            ifs.push(("eth0", 2, "fe80::10", 64));
        }
        if kind >= 2 {
            ifs.push(("eth1", 3, "192.168.2.10", 24));
        }
        if kind >= 3 {
            ifs.push(("eth1", 3, "fd00::10", 64));
        }
        Topo { ifs }
    }
    pub fn daemon_cmd(&self) -> String {
        let mut s = format!("daemon {}", self.ifs.len());
        for (n, i, ip, p) in &self.ifs {
            s.push_str(&format!(" {} {} {} {}", hx(n), i, ip, p));
        }
        s
    }
    fn has_v6(&self) -> bool {
        self.ifs.iter().any(|i| i.2.contains(':'))
    }
    fn two(&self) -> bool {
        self.ifs.iter().any(|i| i.1 == 3)
    }
    /// address pool for services: in-subnet, off-link, other interface
    fn addr_pool(&self, k: usize) -> Vec<String> {
        if !self.ifs.iter().any(|i| !i.2.contains(':')) {
            return vec![format!("fe80::{}", 20 + k), "fe80::10".to_string(), "2001:db8::1".to_string(), "10.9.9.9".to_string()];
        }
        let mut v = vec![format!("192.168.1.{}", 20 + k), "192.168.1.10".to_string(), "10.9.9.9".to_string()];
        if self.has_v6() {
            v.push(format!("fe80::{}", 20 + k));
            v.push("2001:db8::1".to_string());
        }
        if self.two() {
            v.push(format!("192.168.2.{}", 20 + k));
        }
        if self.ifs.len() >= 4 {
            v.push(format!("fd00::{}", 20 + k));
        }
        v
    }
}

// (non-ASCII upper-case letters only in names that are never spelled in another NON-ASCII letter
//  case: the models fold ASCII letters only, the crate folds Unicode - `flip_case` is ASCII only)
const INSTS: &[&str] = &["web", "Web", "My Printer", "My.Dotted", "caf\u{e9}", "UPPER", "x (2)", "a-1", "\u{c9}cole", "\u{41f}\u{440}\u{438}\u{43d}\u{442}\u{435}\u{440}"];
const HOSTS: &[&str] = &["alpha.local.", "Beta.local.", "gamma-2.local.", "alpha.local.local."];
const PROPS: &[&[(&str, Option<&str>)]] =
    &[&[], &[("path", Some("/"))], &[("Key", Some("v=1")), ("flag", None)], &[("a", Some(""))]];
/// times (ms) around the constants of the responder
const DTS: &[u64] = &[0, 0, 1, 60, 119, 120, 121, 130, 249, 250, 251, 499, 500, 501, 600, 749, 750, 751, 800, 999, 1000, 1001, 1100, 1749, 1750, 1751, 2000, 3000, 6000];

pub fn gen_svc(r: &mut Rng, topo: &Topo, k: usize) -> Svc {
    let base = if r.chance(1, 40) { "_abcdefghijklmnop._tcp.local.".to_string() } else { r.pick(TYPES).to_string() };
    let sub = if r.chance(1, 4) { Some(format!("_printer._sub.{}", base)) } else { None };
    let pool = topo.addr_pool(k);
    let mut ips = vec![pool[0].clone()];
    match r.below(8) {
        0 => ips = vec![pool[2].clone()],                  // only off-link
        1 => ips.push(pool[2].clone()),                    // one on, one off
        2 => ips = vec![pool[1].clone()],                  // the interface's own address
        3 if pool.len() > 3 => ips.push(pool[3].clone()),  // + IPv6 / other interface
        4 if pool.len() > 3 => ips = pool[3..].to_vec(),   // only IPv6 / other interface
        5 if pool.len() > 3 => ips = pool.clone(),         // everything
        _ => {}
    }
    let props: Vec<(String, Option<String>)> =
        r.pick(PROPS).iter().map(|(k, v)| (k.to_string(), v.map(|s| s.to_string()))).collect();
    Svc {
        ty_arg: sub.clone().unwrap_or(base.clone()),
        ty: base,
        sub,
        inst: format!("{}{}", r.pick(INSTS), if r.chance(1, 2) { k.to_string() } else { String::new() }),
        host: r.pick(HOSTS).to_string(),
        port: *r.pick(&[80u16, 8080, 631, 65535, 0]),
        ips,
        props,
        probe: !r.chance(1, 5),
        auto: r.chance(1, 10),
    }
}

fn flip_case(s: &str, mode: u64) -> String {
    // ASCII only: non-ASCII upper-case letters are outside the modelled domain
    match mode {
        0 => s.to_string(),
        1 => s.to_ascii_uppercase().replace(".LOCAL.", ".local."),
        2 => s.to_ascii_lowercase(),
        _ => s.to_ascii_uppercase(),
    }
}

fn host_norm(h: &str) -> String {
    if h.ends_with(".local.local.") {
        h[..h.len() - 6].to_string()
    } else {
        h.to_string()
    }
}

/// the records a service owns (as the responder would publish them) with chosen TTLs
fn svc_records(s: &Svc, ttl_host: u32, ttl_other: u32, flush: bool) -> Vec<RecDesc> {
    let fl = if flush { 0x8001u16 } else { 1 };
    let host = host_norm(&s.host);
    let mut v = vec![
        RecDesc { name: s.ty.clone(), ty: 12, class: 1, ttl: ttl_other, rdata: RDataView::Ptr(s.fullname()) },
        RecDesc {
            name: s.fullname(),
            ty: 33,
            class: fl,
            ttl: ttl_host,
            rdata: RDataView::Srv { priority: 0, weight: 0, port: s.port, host: host.clone() },
        },
        RecDesc { name: s.fullname(), ty: 16, class: fl, ttl: ttl_other, rdata: RDataView::Txt(s.txt()) },
    ];
    for a in &s.ips {
        let ip: IpAddr = a.parse().unwrap();
        v.push(RecDesc {
            name: host.clone(),
            ty: if ip.is_ipv4() { 1 } else { 28 },
            class: fl,
            ttl: ttl_host,
            rdata: RDataView::Addr { ip, if_name: "x".into(), if_index: 0 },
        });
    }
    if let Some(sub) = &s.sub {
        v.push(RecDesc { name: sub.clone(), ty: 12, class: 1, ttl: ttl_other, rdata: RDataView::Ptr(s.fullname()) });
    }
    v.push(RecDesc {
        name: "_services._dns-sd._udp.local.".into(),
        ty: 12,
        class: 1,
        ttl: ttl_other,
        rdata: RDataView::Ptr(s.ty.clone()),
    });
    v
}

fn packet(d: &MsgDesc, id: u16) -> Option<String> {
    let mut pk = encode(d)?.into_iter().next()?;
    if pk.len() >= 2 {
        pk[0] = (id >> 8) as u8;
        pk[1] = id as u8;
    }
    Some(hex(&pk))
}

/// a query with 1-3 questions about the services (or about nothing we have), maybe with known answers
pub fn gen_query(r: &mut Rng, svcs: &[Svc]) -> Option<String> {
    let mut d = MsgDesc::default();
    let nq = *r.pick(&[1u64, 1, 1, 2, 3]);
    for _ in 0..nq {
        let s = if svcs.is_empty() { None } else { Some(&svcs[r.below(svcs.len() as u64) as usize]) };
        let case = r.below(4);
        // the names a conflict would rename the service to (`name_change`, `hostname_change`)
        let renamed = |full: &str, suffix: &str| match full.find('.') {
            Some(i) => format!("{}{}{}", &full[..i], suffix, &full[i..]),
            None => full.to_string(),
        };
        let (name, ty): (String, u16) = match (r.below(14), s) {
            (0, Some(s)) => (s.ty.clone(), 12),
            (1, Some(s)) => (flip_case(&s.ty, 1 + r.below(2)), 12),
            (2, Some(s)) => (s.sub.clone().unwrap_or(format!("_none._sub.{}", s.ty)), 12),
            (3, _) => ("_services._dns-sd._udp.local.".to_string(), 12),
            (4, Some(s)) => (flip_case(&s.fullname(), case), 33),
            (5, Some(s)) => (flip_case(&s.fullname(), case), 16),
            (6, Some(s)) => (flip_case(&s.fullname(), case), 255),
            (7, Some(s)) => (flip_case(&host_norm(&s.host), case), 1),
            (8, Some(s)) => (flip_case(&host_norm(&s.host), case), 28),
            (9, Some(s)) => (flip_case(&host_norm(&s.host), case), 255),
            (10, Some(s)) => (flip_case(&s.fullname(), case), *r.pick(&[1u16, 28, 12, 47])),
            (11, Some(s)) => (flip_case(&host_norm(&s.host), case), *r.pick(&[33u16, 16, 12])),
            (12, Some(s)) => (flip_case(&renamed(&s.fullname(), " (2)"), case), *r.pick(&[33u16, 16, 255])),
            (13, Some(s)) => (flip_case(&renamed(&host_norm(&s.host), "-2"), case), *r.pick(&[1u16, 28, 255])),
            _ => (
                r.pick(&["_nosuch._tcp.local.", "nobody._http._tcp.local.", "nohost.local.", "_services._dns-sd._udp.local."])
                    .to_string(),
                *r.pick(&[12u16, 33, 16, 255, 1, 28]),
            ),
        };
        d.questions.push((name, ty));
    }
    // known answers
    if !svcs.is_empty() && r.chance(1, 2) {
        let s = &svcs[r.below(svcs.len() as u64) as usize];
        let th = *r.pick(&[0u32, 1, 59, 60, 61, 120]);
        let to = *r.pick(&[0u32, 1, 2249, 2250, 2251, 4500]);
        let flush = r.chance(3, 4);
        let mut recs = svc_records(s, th, to, flush);
        if r.chance(1, 6) {
            for rec in recs.iter_mut() {
                rec.name = flip_case(&rec.name, 1 + r.below(2));
            }
        }
        for rec in recs {
            if r.chance(1, 2) {
                d.answers.push((rec, 0));
            }
        }
    }
    let id = if r.chance(1, 2) { 0 } else { r.range(1, 65535) as u16 };
    packet(&d, id)
}

/// a probe query of a competing host for one of our names: tiebreaking
pub fn gen_tiebreak(r: &mut Rng, svcs: &[Svc]) -> Option<String> {
    let s = &svcs[r.below(svcs.len() as u64) as usize];
    let mut d = MsgDesc::default();
    let mut o = s.clone();
    match r.below(5) {
        0 => o.port = o.port.wrapping_add(1),
        1 => o.port = o.port.wrapping_sub(1),
        2 => o.props = vec![("zz".to_string(), Some("9".to_string()))],
        3 => o.props = vec![],
        _ => {}
    }
    let recs = svc_records(&o, 120, 4500, true);
    // the competing host may spell the name in another letter case (question and records alike)
    let spell = if r.chance(1, 3) { 1 + r.below(3) } else { 0 };
    d.questions.push((flip_case(&s.fullname(), spell), 255));
    // authority section: TXT and SRV in the order a compliant prober sorts them (by type)
    let mut auth: Vec<RecDesc> = recs.into_iter().filter(|x| x.ty == 33 || x.ty == 16).collect();
    for rec in auth.iter_mut() {
        rec.name = flip_case(&rec.name, spell);
    }
    auth.sort_by_key(|x| x.ty);
    if r.chance(1, 6) {
        auth.truncate(1);
    }
    d.authorities = auth;
    packet(&d, 0)
}

/// a response that may conflict with what we are probing for
pub fn gen_conflict(r: &mut Rng, svcs: &[Svc]) -> Option<String> {
    let s = &svcs[r.below(svcs.len() as u64) as usize];
    let mut o = s.clone();
    match r.below(6) {
        0 => o.port = o.port.wrapping_add(7),
        1 => o.props = vec![("other".to_string(), Some("1".to_string()))],
        // the other claimant's address may lie in our subnet, in another one, or be link-local
        2 => o.ips = vec![r.pick(&["192.168.1.99", "192.168.1.99", "10.9.9.9", "169.254.7.7"]).to_string()],
        3 => o.ips = vec![r.pick(&["fe80::99", "fe80::99", "2001:db8::99"]).to_string()],
        4 => {
            o.port = o.port.wrapping_add(7);
            o.ips = vec!["192.168.1.99".to_string()];
        }
        _ => {} // same data: no conflict
    }
    // (a peer that repeats OUR data - same RDATA, with or without the cache-flush bit, in whatever
    // spelling - claims nothing: no conflict)
    let mut recs = svc_records(&o, 120, 4500, !r.chance(1, 4));
    // the other host may spell the names in another letter case
    if r.chance(1, 3) {
        let spell = 1 + r.below(3);
        for rec in recs.iter_mut() {
            rec.name = flip_case(&rec.name, spell);
        }
    }
    // Like a real announcement the response carries the PTR: with a PTR that nobody browses
    // the daemon does not cache the records (`is_for_us` is false), so that only
    // `conflict_handler` reacts - the part of `handle_response` the responder model covers.
    let mut d = MsgDesc { flags: 0x8400, ..Default::default() };
    for rec in recs {
        if (rec.ty == 12 && d.answers.is_empty()) || (rec.ty != 12 && r.chance(2, 3)) {
            d.answers.push((rec, 0));
        }
    }
    if d.answers.len() < 2 {
        return None;
    }
    packet(&d, 0)
}

pub struct Knobs {
    pub tag: &'static str,
    pub topo: u64,
    pub steps: u64,
    pub w_register: u64,
    pub w_rereg: u64,
    pub w_unregister: u64,
    pub w_query: u64,
    pub w_tiebreak: u64,
    pub w_conflict: u64,
    pub w_jump: u64,
    pub shutdown: bool,
    pub jitter: Option<u64>,
}

pub fn gen_history(r: &mut Rng, k: &Knobs) -> String {
    let topo = Topo::new(k.topo);
    let mut cmds: Vec<String> = vec![topo.daemon_cmd()];
    match r.below(12) {
        0 => {}                                        // default interface check every 5 s
        1 => cmds.push("ipint 0 1".to_string()),       // every second
        2 => cmds.push("ipint 0 0".to_string()),       // disabled
        _ => cmds.push("ipint 0 100000".to_string()),
    }
    if !r.chance(1, 8) {
        cmds.push("monitor 0 900".to_string());
    }
    let mut now = 1_000_000u64;
    cmds.push(format!("run {}", now));
    let mut pool: Vec<Svc> = vec![];
    let nsvc = r.range(1, 3) as usize;
    for i in 0..nsvc {
        let mut s = gen_svc(r, &topo, i);
        if i > 0 && r.chance(1, 2) {
            s.host = pool[0].host.clone(); // shared host name
            if r.chance(1, 2) {
                s.ips = pool[0].ips.clone();
            }
        }
        if k.w_tiebreak > 0 || k.w_conflict > 0 {
            s.inst = format!("{}-{}", s.inst, i); // distinct instance names (see generate_c07 and below)
        } else if i > 0 && k.w_conflict == 0 && r.chance(1, 6) {
            s.inst = flip_case(&pool[0].inst, 1 + r.below(2)); // same name in another letter case
            s.ty = pool[0].ty.clone();
            s.ty_arg = pool[0].ty_arg.clone();
            s.sub = pool[0].sub.clone();
        }
        pool.push(s);
    }
    let mut registered: Vec<Svc> = vec![];
    let mut chan = 0u64;
    let weights = [k.w_register, k.w_rereg, k.w_unregister, k.w_query, k.w_tiebreak, k.w_conflict, k.w_jump];
    let total: u64 = weights.iter().sum();
    let srcs4 = ["192.168.1.50", "192.168.1.50", "10.1.1.1", "192.168.2.50"];
    for step in 0..k.steps {
        let mut x = r.below(total);
        let mut action = 0;
        for (i, w) in weights.iter().enumerate() {
            if x < *w {
                action = i;
                break;
            }
            x -= w;
        }
        if step == 0 {
            action = 0;
        }
        match action {
            0 => {
                let s = pool[r.below(pool.len() as u64) as usize].clone();
                let j = k.jitter.unwrap_or_else(|| *r.pick(&[0u64, 1, 100, 125, 248, 249]));
                cmds.push(format!("jit 0 {}", j));
                cmds.push(s.register_cmd());
                registered.push(s);
            }
            1 => {
                if let Some(i) = (!registered.is_empty()).then(|| r.below(registered.len() as u64) as usize) {
                    let mut s = registered[i].clone();
                    match r.below(6) {
                        0 => s.port = s.port.wrapping_add(1),
                        1 => s.props = vec![("new".to_string(), Some("1".to_string()))],
                        2 => s.ips = vec![topo.addr_pool(5)[0].clone()],
                        // The same name in another letter case: both spellings then sit in the
                        // `waiting_services` hash set of a shared probe and whichever comes first
                        // names the Announce event.  Without renames the two differ in letter case
                        // only (compared lower-cased); after a rename by conflict resolution they
                        // resolve to different names, so histories with conflicting responses do
                        // not register one name in two letter cases.
                        3 if k.w_conflict == 0 => s.inst = flip_case(&s.inst, 1 + r.below(2)),
                        4 => s.host = "delta.local.".to_string(),
                        _ => {}
                    }
                    cmds.push(format!("jit 0 {}", r.pick(&[0u64, 77, 249])));
                    cmds.push(s.register_cmd());
                    registered.push(s);
                }
            }
            2 => {
                chan += 1;
                let name = if !registered.is_empty() && !r.chance(1, 5) {
                    let s = &registered[r.below(registered.len() as u64) as usize];
                    flip_case(&s.fullname(), r.below(4))
                } else {
                    "nosuch._http._tcp.local.".to_string()
                };
                cmds.push(format!("unregister 0 {} {}", chan, hx(&name)));
            }
            3 => {
                let about = if r.chance(1, 8) { &pool[..] } else { &registered[..] };
                if let Some(q) = gen_query(r, about) {
                    let v4_ok = topo.ifs.iter().any(|i| !i.2.contains(':'));
                    let v6 = topo.has_v6() && (!v4_ok || r.chance(1, 3));
                    // sometimes an interface the daemon does not have
                    let ifi = if r.chance(1, 25) { 9 } else if topo.two() && r.chance(1, 3) { 3 } else { 2 };
                    let src = if v6 { "fe80::50".to_string() } else { r.pick(&srcs4).to_string() };
                    let port = *r.pick(&[5353u64, 5353, 5353, 5354, 40000, 53]);
                    cmds.push(format!("inject 0 {} {} {} {} {}", ifi, b(!v6), src, port, q));
                    if r.chance(1, 4) {
                        continue; // several datagrams in one iteration
                    }
                }
            }
            4 => {
                // tiebreaking only against single-record-per-type probes (SRV + TXT of an instance)
                if !registered.is_empty() {
                    if let Some(q) = gen_tiebreak(r, &registered) {
                        cmds.push(if topo.ifs.iter().any(|i| !i.2.contains(':')) {
                            format!("inject 0 2 1 192.168.1.50 5353 {}", q)
                        } else {
                            format!("inject 0 2 0 fe80::50 5353 {}", q)
                        });
                    }
                }
            }
            5 => {
                if !registered.is_empty() {
                    if let Some(q) = gen_conflict(r, &registered) {
                        cmds.push(format!("jit 0 {}", r.pick(&[0u64, 10, 249])));
                        // a `jit` must be followed by an API call: a status-neutral one
                        chan += 1;
                        cmds.push(format!("unregister 0 {} {}", chan, hx("nosuch._x._udp.local.")));
                        cmds.push(if topo.ifs.iter().any(|i| !i.2.contains(':')) {
                            format!("inject 0 2 1 192.168.1.50 5353 {}", q)
                        } else {
                            format!("inject 0 2 0 fe80::50 5353 {}", q)
                        });
                    }
                }
            }
            _ => {
                // the daemon is late: the clock jumps without an iteration
                now += *r.pick(&[100u64, 250, 700, 749, 750, 751, 1000, 1200, 2000]);
                cmds.push(format!("now {}", now));
            }
        }
        if r.chance(1, 30) {
            cmds.push(format!("monitor 0 {}", 901 + step)); // a second monitor joins later
        }
        now += *r.pick(DTS);
        cmds.push(format!("run {}", now));
    }
    if k.shutdown {
        chan += 1;
        cmds.push(format!("shutdown 0 {}", chan));
        cmds.push(format!("run {}", now));
    } else {
        now += *r.pick(&[1000u64, 2000, 3000]);
        cmds.push(format!("run {}", now));
    }
    format!("sim {} {}", k.tag, cmds.join(" ; "))
}

/// A service that is renamed by a conflicting response while it probes, and - once it is announced
/// under the new name - is asked about BOTH names: the one it lost (instance / host, any letter
/// case, SRV / TXT / ANY / A / AAAA) and the one it holds now.  The loser must be silent about the
/// name it lost and answer for the new one.
pub fn gen_renamed_asked(r: &mut Rng, tag: &'static str) -> String {
    let topo = Topo::new(topo_of(r));
    let mut cmds: Vec<String> = vec![topo.daemon_cmd(), "ipint 0 100000".to_string()];
    if !r.chance(1, 8) {
        cmds.push("monitor 0 900".to_string());
    }
    let mut now = 1_000_000u64;
    cmds.push(format!("run {}", now));
    let mut s = gen_svc(r, &topo, 0);
    s.inst = format!("{}-0", s.inst);
    cmds.push(format!("jit 0 {}", r.pick(&[0u64, 100, 249])));
    cmds.push(s.register_cmd());
    now += *r.pick(&[50u64, 300, 520]);
    cmds.push(format!("run {}", now));
    let v4_ok = topo.ifs.iter().any(|i| !i.2.contains(':'));
    let inj = |q: &str| if v4_ok { format!("inject 0 2 1 192.168.1.50 5353 {}", q) } else { format!("inject 0 2 0 fe80::50 5353 {}", q) };
    if r.chance(1, 3) {
        // an ECHO, not a conflict: a peer repeats our own address records (all of them, or one of
        // several), with or without the cache-flush bit, maybe in another letter case - nobody
        // claims the name with different data, nothing may be renamed
        let mut recs: Vec<RecDesc> = svc_records(&s, 120, 4500, r.chance(1, 2));
        if r.chance(1, 2) {
            let spell = 1 + r.below(3);
            for rec in recs.iter_mut() {
                rec.name = flip_case(&rec.name, spell);
            }
        }
        let mut d = MsgDesc { flags: 0x8400, ..Default::default() };
        let one = r.chance(1, 2);
        for rec in recs {
            if rec.ty == 12 && d.answers.is_empty() {
                d.answers.push((rec, 0));
            } else if (rec.ty == 1 || rec.ty == 28) && !(one && d.answers.len() >= 2) {
                d.answers.push((rec, 0));
            }
        }
        if let Some(q) = packet(&d, 0) {
            cmds.push(inj(&q));
        }
    } else {
        for _ in 0..8 {
            if let Some(q) = gen_conflict(r, std::slice::from_ref(&s)) {
                cmds.push(inj(&q));
                break;
            }
        }
    }
    now += 100;
    cmds.push(format!("run {}", now));
    now += *r.pick(&[4000u64, 6000]);
    cmds.push(format!("run {}", now));
    let renamed = |full: &str, suffix: &str| match full.find('.') {
        Some(i) => format!("{}{}{}", &full[..i], suffix, &full[i..]),
        None => full.to_string(),
    };
    for _ in 0..r.range(3, 7) {
        let mut d = MsgDesc::default();
        for _ in 0..*r.pick(&[1u64, 1, 2]) {
            let case = r.below(4);
            let (name, ty): (String, u16) = match r.below(8) {
                0 | 1 | 2 => (flip_case(&s.fullname(), case), *r.pick(&[33u16, 16, 255])),
                3 => (flip_case(&renamed(&s.fullname(), " (2)"), case), *r.pick(&[33u16, 16, 255])),
                4 | 5 => (flip_case(&host_norm(&s.host), case), *r.pick(&[1u16, 28, 255])),
                6 => (flip_case(&renamed(&host_norm(&s.host), "-2"), case), *r.pick(&[1u16, 28, 255])),
                _ => (s.ty.clone(), 12),
            };
            d.questions.push((name, ty));
        }
        if let Some(q) = packet(&d, if r.chance(1, 2) { 0 } else { 77 }) {
            let port = *r.pick(&[5353u64, 5353, 5353, 40000]);
            cmds.push(if v4_ok { format!("inject 0 2 1 192.168.1.50 {} {}", port, q) } else { format!("inject 0 2 0 fe80::50 {} {}", port, q) });
        }
        now += *r.pick(&[10u64, 200, 1500]);
        cmds.push(format!("run {}", now));
    }
    now += 2000;
    cmds.push(format!("run {}", now));
    format!("sim {} {}", tag, cmds.join(" ; "))
}

/// Two or three services of ONE daemon that share a host name - and its address record - and
/// are registered back to back with DIFFERENT jitters (the later one often with the shorter), or
/// with a third one that brings another address for the same host (the host-name probe starts
/// over).  The probe of the shared host name is owned by whoever came first; everybody who joined
/// must still be woken when it finishes: every service is announced, twice.
pub fn gen_shared_host(r: &mut Rng, tag: &'static str) -> String {
    let topo = Topo::new(topo_of(r));
    let mut cmds: Vec<String> = vec![topo.daemon_cmd(), "ipint 0 100000".to_string()];
    if !r.chance(1, 8) {
        cmds.push("monitor 0 900".to_string());
    }
    let mut now = 1_000_000u64;
    cmds.push(format!("run {}", now));
    let n = r.range(2, 3) as usize;
    let first = gen_svc(r, &topo, 0);
    let jits: &[u64] = &[249, 200, 100, 0, 0, 125];
    for i in 0..n {
        let mut s = gen_svc(r, &topo, i);
        s.inst = format!("{}-{}", s.inst, i);
        s.host = first.host.clone();
        s.ips = first.ips.clone();
        if i == 2 || (i == 1 && r.chance(1, 4)) {
            // the same host name with another address of the same subnet
            s.ips = vec![topo.addr_pool(5)[0].clone()];
        }
        let j = if i == 0 { *r.pick(&[249u64, 200, 100]) } else { *r.pick(jits) };
        cmds.push(format!("jit 0 {}", j));
        cmds.push(s.register_cmd());
        if r.chance(1, 2) {
            now += *r.pick(&[0u64, 1, 50, 130, 260, 600]);
            cmds.push(format!("run {}", now));
        }
    }
    now += 5000;
    cmds.push(format!("run {}", now));
    now += 2000;
    cmds.push(format!("run {}", now));
    format!("sim {} {}", tag, cmds.join(" ; "))
}

fn count(tier: &str, quick: u64, thorough: u64) -> u64 {
    let base = if tier == "thorough" { thorough } else { quick };
    // development aid: VERIF_SCALE=3 triples the number of histories
    base * std::env::var("VERIF_SCALE").ok().and_then(|s| s.parse().ok()).unwrap_or(1)
}

fn topo_of(r: &mut Rng) -> u64 {
    match std::env::var("VERIF_TOPO").ok().and_then(|s| s.parse::<u64>().ok()) {
        Some(t) => t,
        None => *r.pick(&[0u64, 0, 1, 1, 2, 3, 4]),
    }
}

/// C07: registrations under every jitter, probing and announcing
pub fn generate_c07(r: &mut Rng, tier: &str, emit: &mut dyn FnMut(String)) {
    // (a) the plain life cycle of one registration under each jitter value
    let jitters: Vec<u64> = if tier == "thorough" { (0..250).collect() } else { (0..250).step_by(7).chain([1, 248, 249]).collect() };
    for j in jitters {
        let k = Knobs {
            tag: "C07", topo: topo_of(r), steps: r.range(1, 3), w_register: 3, w_rereg: 1, w_unregister: 0, w_query: 2,
            w_tiebreak: 0, w_conflict: 0, w_jump: 0, shutdown: false, jitter: Some(j),
        };
        emit(gen_history(r, &k));
    }
    // (b) mixed histories
    for _ in 0..count(tier, 1500, 15000) {
        // Tiebreaking compares the probe's records pairwise in the order `Probe::insert_record`
        // gave them; among records of one type that order is whatever `binary_search_by`
        // returns ("any one of the matches").  Histories with competing probe queries therefore
        // have no re-registration with changed data (which puts two SRV or two TXT records
        // into one probe), and the competing probes are for instance names only.
        let tb = r.chance(1, 3);
        let k = Knobs {
            tag: "C07", topo: topo_of(r), steps: r.range(2, 8), w_register: 4, w_rereg: if tb { 0 } else { 2 }, w_unregister: 1,
            w_query: 3, w_tiebreak: if tb { 2 } else { 0 }, w_conflict: if r.chance(1, 2) { 1 } else { 0 }, w_jump: 1,
            shutdown: r.chance(1, 6), jitter: None,
        };
        emit(gen_history(r, &k));
    }
    for _ in 0..count(tier, 100, 1000) {
        emit(gen_shared_host(r, "C07"));
    }
}

/// C09: unregister / re-register / shutdown at times around 120, 250, 750, 1000 ms
pub fn generate_c09(r: &mut Rng, tier: &str, emit: &mut dyn FnMut(String)) {
    for _ in 0..count(tier, 1800, 18000) {
        let k = Knobs {
            tag: "C09", topo: topo_of(r), steps: r.range(2, 8), w_register: 3, w_rereg: 2, w_unregister: 4, w_query: 3,
            w_tiebreak: 0, w_conflict: if r.chance(1, 4) { 1 } else { 0 }, w_jump: 1, shutdown: r.chance(1, 2), jitter: None,
        };
        emit(gen_history(r, &k));
    }
    for _ in 0..count(tier, 60, 600) {
        emit(crate::c18::gen_late_interface_unregister(r));
    }
}

/// C06: queries of every kind before, during and after probing
pub fn generate_c06(r: &mut Rng, tier: &str, emit: &mut dyn FnMut(String)) {
    for _ in 0..count(tier, 1800, 18000) {
        let k = Knobs {
            tag: "C06", topo: topo_of(r), steps: r.range(3, 10), w_register: 2, w_rereg: 1, w_unregister: 1, w_query: 8,
            w_tiebreak: 0, w_conflict: if r.chance(1, 5) { 1 } else { 0 }, w_jump: 0, shutdown: r.chance(1, 8), jitter: None,
        };
        emit(gen_history(r, &k));
    }
    for _ in 0..count(tier, 150, 1500) {
        emit(gen_renamed_asked(r, "C06"));
    }
}

/// C10 at daemon level: announced services and queries that list their records as known
/// answers with TTLs around half of the record's own (59 / 60 / 61 of 120, 2249 / 2250 / 2251 of
/// 4500), with and without the cache-flush bit, in the owner's spelling or another letter case
pub fn generate_c10(r: &mut Rng, tier: &str, emit: &mut dyn FnMut(String)) {
    for _ in 0..count(tier, 400, 4000) {
        let k = Knobs {
            tag: "C10", topo: topo_of(r), steps: r.range(4, 10), w_register: 2, w_rereg: 0, w_unregister: 0, w_query: 10,
            w_tiebreak: 0, w_conflict: 0, w_jump: 0, shutdown: false, jitter: None,
        };
        emit(gen_history(r, &k));
    }
}
