//! C03 / C04 / C05: the client side of the daemon against a SCRIPTED responder.  Every history
//! is inside the fragment the client model (lean/Mdns/Model/Client.lean) predicts exactly: one
//! daemon, an unchanging interface table, searches, verifies, metrics and injected responses.
use crate::scen::*;
use crate::util::*;

fn history(r: &mut Rng, tag: &str) -> String {
    let steps = r.range(3, 12);
    let tail = *r.pick(&[3_000u64, 12_000, 130_000, 5_000_000]);
    let max_dt = *r.pick(&[1000u64, 4000, 10_000, 120_000]);
    gen_scripted(r, tag, steps, tail, max_dt)
}

pub fn generate(r: &mut Rng, prop: &str, tier: &str, emit: &mut dyn FnMut(String)) {
    let n = if tier == "thorough" { 3000 } else { 300 };
    let tag: &'static str = match prop {
        "C03" => "C03",
        "C04" => "C04",
        _ => "C05",
    };
    for _ in 0..n {
        emit(history(r, tag));
    }
}
