//! C03 / C04 / C05: the client side of the daemon against a SCRIPTED responder.  Every history
//! is inside the fragment the client model (lean/Mdns/Model/Client.lean) predicts exactly: one
//! daemon, an unchanging interface table, searches, verifies, metrics, options and injected
//! datagrams (crafted responses, a few queries and malformed packets).
//!
//! Restrictions that keep hash-order dependent BEHAVIOUR out of the histories (the model has
//! no hash order; where only the ORDER of outputs depends on it the comparison is canonical):
//! * an instance is advertised under ONE PTR name per history (its type or one subtype of it):
//!   `evict_expired_services` reports an expired SRV only for the first PTR name it visits;
//! * the SRV targets of one history never differ only in letter case (`refresh_due_hosts`
//!   would query whichever spelling the hash order yields first);
//! * instance labels contain no backslash (names from the wire are stored unescaped and
//!   re-escaped on the way out, finding D-escape).
use crate::scen::*;
use crate::util::*;
use mdns_sd::verif::parser::{encode, MsgDesc, RDataView, RecDesc};
use std::net::IpAddr;

#[derive(Clone)]
struct CInst {
    inst: Inst,
    /// the owner of the PTR record: the type itself or a subtype of it
    ptr_name: String,
    /// owner name of the address records (the SRV target, possibly in another letter case)
    addr_owner: String,
    /// PTR sent with the cache-flush bit (unusual, legal)
    ptr_flush: bool,
}

fn escape(label: &str) -> String {
    label.replace('\\', "\\\\").replace('.', "\\.")
}

fn recs(c: &CInst, t: &Ttls, flush: bool) -> Vec<RecDesc> {
    let fl = if flush { 0x8001u16 } else { 1 };
    let full = format!("{}.{}", escape(&c.inst.label), c.inst.ty);
    let mut v = vec![
        RecDesc {
            name: c.ptr_name.clone(),
            ty: 12,
            class: if c.ptr_flush { 0x8001 } else { 1 },
            ttl: t.ptr,
            rdata: RDataView::Ptr(full.clone()),
        },
        RecDesc {
            name: full.clone(),
            ty: 33,
            class: fl,
            ttl: t.srv,
            rdata: RDataView::Srv { priority: 0, weight: 0, port: c.inst.port, host: c.inst.host.clone() },
        },
        RecDesc { name: full, ty: 16, class: fl, ttl: t.txt, rdata: RDataView::Txt(c.inst.txt.clone()) },
    ];
    for a in &c.inst.addrs {
        v.push(RecDesc {
            name: c.addr_owner.clone(),
            ty: if a.is_ipv4() { 1 } else { 28 },
            class: fl,
            ttl: t.addr,
            rdata: RDataView::Addr { ip: *a, if_name: "x".into(), if_index: 0 },
        });
    }
    v
}

fn message(flags: u16, questions: Vec<(String, u16)>, answers: &[RecDesc], authorities: &[RecDesc], additionals: &[RecDesc]) -> String {
    let d = MsgDesc {
        flags,
        id: 0,
        questions,
        answers: answers.iter().map(|r| (r.clone(), 0)).collect(),
        authorities: authorities.to_vec(),
        additionals: additionals.to_vec(),
    };
    let pk = encode(&d).and_then(|v| v.into_iter().next()).unwrap_or_default();
    hex(&pk)
}

/// the links a datagram can arrive on: (interface index, v4, source address)
struct Links {
    daemon: String,
    rx: Vec<(u32, bool, &'static str)>,
}

fn gen_links(r: &mut Rng) -> Links {
    match r.below(4) {
        0 | 1 => Links { daemon: format!("1 {} 2 192.168.1.10 24", hx("eth0")), rx: vec![(2, true, "192.168.1.50")] },
        2 => Links {
            daemon: format!("2 {} 2 192.168.1.10 24 {} 2 fe80::10 64", hx("eth0"), hx("eth0")),
            rx: vec![(2, true, "192.168.1.50"), (2, false, "fe80::50")],
        },
        _ => Links {
            daemon: format!("2 {} 2 192.168.1.10 24 {} 3 10.0.0.5 8", hx("eth0"), hx("eth1")),
            rx: vec![(2, true, "192.168.1.50"), (3, true, "10.0.0.50")],
        },
    }
}

const TTL_POOL: &[u32] = &[1, 2, 3, 5, 10, 10, 120, 4500];
const DT_POOL: &[u64] = &[0, 1, 400, 499, 500, 501, 800, 999, 1000, 1001, 1500, 1600, 2000, 4000, 8000, 9500, 10_000, 96_000, 120_000];

/// what the history concentrates on
#[derive(Clone, Copy, PartialEq)]
pub enum Focus {
    Resolve,  // C03: updates, flushes, several interfaces
    Complete, // C04: partitions, PTR-only, follow-ups answered or not
    Depart,   // C05: goodbyes, expiry, verify
}

pub fn gen_client(r: &mut Rng, tag: &str, focus: Focus) -> String {
    let links = gen_links(r);
    let mut cmds: Vec<String> = vec![format!("daemon {}", links.daemon)];
    cmds.push("ipint 0 100000".to_string());
    let ninst = r.range(1, 3) as usize;
    let mut insts: Vec<CInst> = (0..ninst)
        .map(|k| {
            let inst = gen_inst(r, k);
            let ptr_name = if r.chance(1, 5) { format!("_printer._sub.{}", inst.ty) } else { inst.ty.clone() };
            let addr_owner = match r.below(6) {
                0 => inst.host.to_lowercase(),
                1 => inst.host.to_uppercase().replace(".LOCAL.", ".local."),
                _ => inst.host.clone(),
            };
            CInst { inst, ptr_name, addr_owner, ptr_flush: r.chance(1, 10) }
        })
        .collect();
    if ninst > 1 && r.chance(1, 2) {
        // instances sharing a host (and its address records)
        let h = insts[0].inst.host.clone();
        let a = insts[0].inst.addrs.clone();
        let o = insts[0].addr_owner.clone();
        insts[1].inst.host = h;
        insts[1].inst.addrs = a;
        insts[1].addr_owner = o;
    }
    if ninst > 1 && r.chance(1, 2) {
        // instances of one type on one channel
        let ty = insts[0].inst.ty.clone();
        let p = insts[0].ptr_name.clone();
        insts[1].inst.ty = ty;
        insts[1].ptr_name = p;
    }
    let mut now = 1_000_000u64;
    let mut chan = 0u64;
    cmds.push(format!("run {}", now));
    if r.chance(1, 8) {
        cmds.push("accept 0 1".to_string());
    }
    if r.chance(5, 6) {
        chan += 1;
        cmds.push(format!("browse 0 {} {}", chan, hx(&insts[0].ptr_name)));
        cmds.push(format!("run {}", now));
    }
    let steps = r.range(3, 12);
    let max_dt = *r.pick(&[1000u64, 4000, 10_000, 120_000]);
    for _ in 0..steps {
        let i = r.below(ninst as u64) as usize;
        let ci = insts[i].clone();
        let t = Ttls { ptr: *r.pick(TTL_POOL), srv: *r.pick(TTL_POOL), txt: *r.pick(TTL_POOL), addr: *r.pick(TTL_POOL) };
        let (ifi, v4, src) = *r.pick(&links.rx);
        let inj = |hexpkt: &str| format!("inject 0 {} {} {} 5353 {}", ifi, b(v4), src, hexpkt);
        let resp = |an: &[RecDesc], ad: &[RecDesc]| message(0x8400, vec![], an, &[], ad);
        // weights per focus: (whole, parts, ptr-only, part-of-set, update, goodbye, foreign, command, metrics, noise, idle)
        let w: [u64; 11] = match focus {
            Focus::Resolve => [3, 2, 1, 1, 3, 1, 1, 2, 1, 1, 1],
            Focus::Complete => [2, 4, 3, 3, 1, 1, 2, 2, 1, 1, 1],
            Focus::Depart => [3, 1, 1, 1, 1, 5, 1, 3, 1, 1, 1],
        };
        let mut x = r.below(w.iter().sum());
        let mut action = 0;
        for (k, wk) in w.iter().enumerate() {
            if x < *wk {
                action = k;
                break;
            }
            x -= wk;
        }
        match action {
            0 => {
                let rs = recs(&ci, &t, true);
                match r.below(3) {
                    0 => cmds.push(inj(&resp(&rs[..1], &rs[1..]))),
                    1 => cmds.push(inj(&resp(&rs, &[]))),
                    // SRV / TXT / addresses in the authority section
                    _ => cmds.push(inj(&message(0x8400, vec![], &rs[..1], &rs[1..], &[]))),
                }
            }
            1 => {
                let mut rs = recs(&ci, &t, r.chance(3, 4));
                for k in (1..rs.len()).rev() {
                    let j = r.below(k as u64 + 1) as usize;
                    rs.swap(k, j);
                }
                if r.chance(1, 3) {
                    let d = rs[r.below(rs.len() as u64) as usize].clone();
                    rs.push(d);
                }
                let parts = r.range(2, 4) as usize;
                let mut at = 0;
                for p in 0..parts {
                    let end = if p + 1 == parts { rs.len() } else { (at + r.range(1, 2) as usize).min(rs.len()) };
                    if end > at {
                        // parts may arrive on different links
                        let (ifi, v4, src) = *r.pick(&links.rx);
                        cmds.push(format!("inject 0 {} {} {} 5353 {}", ifi, b(v4), src, resp(&rs[at..end], &[])));
                        if r.chance(1, 2) {
                            now += *r.pick(&[0u64, 1, 100, 499, 500, 501, 1000]);
                            cmds.push(format!("run {}", now));
                        }
                    }
                    at = end;
                }
            }
            2 => {
                let rs = recs(&ci, &t, true);
                cmds.push(inj(&resp(&rs[..1], &[])));
                if focus == Focus::Complete && r.chance(2, 3) {
                    // the follow-up questions are answered after one, two or three tries (or never)
                    let wait = *r.pick(&[400u64, 500, 600, 1000, 1100, 1500, 1600, 2100]);
                    now += wait;
                    cmds.push(format!("run {}", now));
                    cmds.push(inj(&resp(&rs[1..3], &[])));
                    if r.chance(2, 3) {
                        now += *r.pick(&[0u64, 500, 600, 1100, 1600]);
                        cmds.push(format!("run {}", now));
                        cmds.push(inj(&resp(&rs[3..], &[])));
                    }
                }
            }
            3 => {
                let rs = recs(&ci, &t, true);
                match r.below(4) {
                    0 => cmds.push(inj(&resp(&rs[1..3], &[]))),
                    1 => cmds.push(inj(&resp(&rs[3..], &[]))),
                    2 => cmds.push(inj(&resp(&rs[1..2], &[]))),
                    _ => cmds.push(inj(&resp(&rs[2..3], &rs[3..]))),
                }
            }
            4 => {
                let mut ni = ci.clone();
                match r.below(4) {
                    0 => ni.inst.port = ni.inst.port.wrapping_add(1),
                    1 => ni.inst.txt = r.pick(TXTS).to_vec(),
                    2 => ni.inst.addrs = vec![format!("192.168.1.{}", 200 + i).parse::<IpAddr>().unwrap()],
                    _ => ni.inst.addrs.push(format!("192.168.1.{}", 220 + r.below(3)).parse::<IpAddr>().unwrap()),
                }
                insts[i] = ni.clone();
                let rs = recs(&ni, &t, r.chance(5, 6));
                cmds.push(inj(&resp(&rs[1..], &[])));
            }
            5 => {
                let z = Ttls { ptr: 0, srv: 0, txt: 0, addr: 0 };
                let rs = recs(&ci, &z, true);
                let pkt = match r.below(5) {
                    0 => resp(&rs[..1], &[]),
                    1 => resp(&rs[1..2], &[]),
                    2 => resp(&rs[3..], &[]),
                    3 => resp(&rs[3..4], &[]),
                    _ => resp(&rs, &[]),
                };
                cmds.push(inj(&pkt));
                if r.chance(1, 4) {
                    cmds.push(inj(&pkt)); // duplicated goodbye
                }
                if r.chance(1, 4) {
                    // withdrawn and announced again within / around the second
                    now += *r.pick(&[0u64, 1, 500, 999, 1000, 1001]);
                    cmds.push(format!("run {}", now));
                    let rs = recs(&ci, &t, true);
                    cmds.push(inj(&resp(&rs, &[])));
                }
            }
            6 => {
                let mut f = gen_inst(r, 7);
                f.ty = "_other._tcp.local.".to_string();
                let fc = CInst { ptr_name: f.ty.clone(), addr_owner: f.host.clone(), inst: f, ptr_flush: false };
                let fr = recs(&fc, &t, true);
                let rs = recs(&ci, &t, true);
                match r.below(4) {
                    // somebody else's answer, solely
                    0 => cmds.push(inj(&resp(&fr[..1], &fr[1..]))),
                    // somebody else's PTR with OUR instance's records as additionals
                    1 => cmds.push(inj(&resp(&fr[..1], &rs[1..]))),
                    // a foreign PTR next to ours (either order)
                    2 => cmds.push(inj(&resp(&[fr[0].clone(), rs[0].clone()], &rs[1..]))),
                    _ => cmds.push(inj(&resp(&[rs[0].clone(), fr[0].clone()], &fr[1..]))),
                }
            }
            7 => {
                chan += 1;
                match r.below(9) {
                    0 => cmds.push(format!("stopbrowse 0 {}", hx(&ci.ptr_name))),
                    1 | 2 => cmds.push(format!("browse 0 {} {}", chan, hx(&ci.ptr_name))),
                    3 => cmds.push(format!("browsec 0 {} {}", chan, hx(&ci.ptr_name))),
                    4 => {
                        let h = match r.below(3) {
                            0 => ci.inst.host.to_lowercase(),
                            1 => ci.inst.host.to_uppercase().replace(".LOCAL.", ".local."),
                            _ => ci.inst.host.clone(),
                        };
                        let to = if r.chance(1, 2) { "none".to_string() } else { format!("some {}", r.pick(&[1500u64, 4000, 20000])) };
                        cmds.push(format!("resolve 0 {} {} {}", chan, hx(&h), to));
                    }
                    5 => cmds.push(format!("stopresolve 0 {}", hx(&ci.inst.host))),
                    6 => cmds.push(format!("accept 0 {}", r.below(2))),
                    _ => cmds.push(format!(
                        "verify 0 {} {}",
                        hx(&format!("{}.{}", ci.inst.label, ci.inst.ty)),
                        r.pick(&[1u64, 999, 1000, 1001, 3000, 10000])
                    )),
                }
            }
            8 => {
                chan += 1;
                cmds.push(format!("metrics 0 {}", chan));
            }
            9 => {
                let rs = recs(&ci, &t, true);
                let full = rs[1].name.clone();
                match r.below(6) {
                    // a query from another querier (a client without registrations stays silent)
                    0 => cmds.push(inj(&message(0, vec![(ci.ptr_name.clone(), 12)], &rs[..1], &[], &[]))),
                    // truncated datagram
                    1 => {
                        let p = resp(&rs, &[]);
                        let cut = (r.range(6, (p.len() / 2 - 1) as u64) * 2) as usize;
                        cmds.push(inj(&p[..cut]));
                    }
                    // NSEC / HINFO about our names
                    2 => cmds.push(inj(&resp(
                        &rs[..2],
                        &[RecDesc { name: full.clone(), ty: 47, class: 0x8001, ttl: t.srv, rdata: RDataView::Nsec { next: full, bitmap: vec![0, 0, 0x80] } }],
                    ))),
                    3 => cmds.push(inj(&resp(
                        &[RecDesc { name: ci.addr_owner.clone(), ty: 13, class: 1, ttl: t.addr, rdata: RDataView::Hinfo { cpu: "x".into(), os: "y".into() } }],
                        &rs[3..],
                    ))),
                    // datagram on an interface the daemon does not have / a family it has not
                    4 => cmds.push(format!("inject 0 9 1 192.168.9.50 5353 {}", resp(&rs, &[]))),
                    _ => cmds.push(format!("inject 0 3 0 fe80::77 5353 {}", resp(&rs, &[]))),
                }
            }
            _ => {}
        }
        now += (*r.pick(DT_POOL)).min(max_dt);
        cmds.push(format!("run {}", now));
    }
    now += *r.pick(&[3_000u64, 12_000, 130_000, 5_000_000]);
    cmds.push(format!("run {}", now));
    chan += 1;
    cmds.push(format!("metrics 0 {}", chan));
    cmds.push(format!("run {}", now));
    format!("sim {} {}", tag, cmds.join(" ; "))
}

/// C05, the verify clause: a resolved instance with long TTLs, one verify request with a
/// time-out of 1.5 .. 10 s, answered never / once before the daemon's resend at +1 s / once
/// after it / twice / only with the SRV or only with the addresses, then silence until well
/// past request + time-out (+ 1 s): ServiceRemoved exactly at the deadline when unanswered, and
/// none at all when an answer restored the records.
pub fn gen_verify(r: &mut Rng, tag: &str) -> String {
    let mut cmds: Vec<String> = vec![format!("daemon 1 {} 2 192.168.1.10 24", hx("eth0"))];
    cmds.push("ipint 0 100000".to_string());
    let inst = gen_inst(r, 0);
    let ci = CInst { ptr_name: inst.ty.clone(), addr_owner: inst.host.clone(), inst, ptr_flush: false };
    let long = Ttls { ptr: 4500, srv: *r.pick(&[120u32, 4500]), txt: 4500, addr: *r.pick(&[120u32, 4500]) };
    let rs = recs(&ci, &long, true);
    let inj = |p: &str| format!("inject 0 2 1 192.168.1.50 5353 {}", p);
    let resp = |a: &[RecDesc], b: &[RecDesc]| message(0x8400, vec![], a, &[], b);
    let mut now = 1_000_000u64;
    cmds.push(format!("run {}", now));
    cmds.push(format!("browse 0 1 {}", hx(&ci.ptr_name)));
    cmds.push(format!("run {}", now));
    cmds.push(inj(&resp(&rs[..1], &rs[1..])));
    now += *r.pick(&[100u64, 1500, 3000, 20_000]);
    cmds.push(format!("run {}", now));
    let ms = *r.pick(&[1500u64, 3000, 5000, 10_000]);
    let full = format!("{}.{}", ci.inst.label, ci.inst.ty);
    cmds.push(format!("verify 0 {} {}", hx(&full), ms));
    let tv = now;
    let answer = match r.below(3) {
        0 => resp(&rs[1..], &[]),
        1 => resp(&rs[1..2], &[]),
        _ => resp(&rs[3..], &[]),
    };
    // offsets of the answers after the request
    let early = r.range(50, 950);
    let late = r.range(1050, ms.saturating_sub(100).max(1100));
    let offs: Vec<u64> = match r.below(5) {
        0 => vec![],
        1 | 2 => vec![early],
        3 => vec![late],
        _ => vec![early, late],
    };
    for o in offs {
        now = tv + o;
        cmds.push(format!("run {}", now));
        cmds.push(inj(&answer));
    }
    now = tv + ms + *r.pick(&[500u64, 1500, 3000, 9000]);
    cmds.push(format!("run {}", now));
    format!("sim {} {}", tag, cmds.join(" ; "))
}

/// Two searches that reach ONE instance: its type and a subtype of it (or two subtypes) are browsed
/// at the same time and the instance is advertised under both PTR names, in one packet or split
/// over several.  Outside the fragment the client model predicts exactly (which PTR name the
/// eviction visits first is hash order): the script carries `drop 0`, a link command without
/// effect here, which takes it out of the fragment - judged by the monitors alone.  EACH channel
/// must get ServiceFound and ServiceResolved by the end of the step that completes the set.
pub fn gen_two_browses(r: &mut Rng, tag: &str) -> String {
    let links = gen_links(r);
    let mut cmds: Vec<String> = vec![format!("daemon {}", links.daemon), "ipint 0 100000".to_string(), "drop 0".to_string()];
    let mut inst = gen_inst(r, 0);
    if r.chance(1, 3) {
        // a host name with non-ASCII letters, upper-case ones included: the cache keys addresses by
        // the lower-cased owner name (Unicode lower-casing, as it does for the SRV target).  Only in
        // these monitor-only histories: the model lower-cases ASCII letters only.
        inst.host = format!("{}.local.", r.pick(&["Ünit-host", "Éclair", "ДОМ"]));
    }
    let (name_a, name_b) = match r.below(3) {
        0 => (inst.ty.clone(), format!("_printer._sub.{}", inst.ty)),
        1 => (format!("_printer._sub.{}", inst.ty), inst.ty.clone()),
        _ => (format!("_printer._sub.{}", inst.ty), format!("_scanner._sub.{}", inst.ty)),
    };
    let mut now = 1_000_000u64;
    cmds.push(format!("run {}", now));
    cmds.push(format!("browse 0 1 {}", hx(&name_a)));
    if r.chance(1, 2) {
        cmds.push(format!("run {}", now));
    }
    cmds.push(format!("browse 0 2 {}", hx(&name_b)));
    cmds.push(format!("run {}", now));
    let t = Ttls { ptr: 4500, srv: 120, txt: 4500, addr: 120 };
    let ca = CInst { ptr_name: name_a, addr_owner: inst.host.clone(), inst: inst.clone(), ptr_flush: false };
    let cb = CInst { ptr_name: name_b, addr_owner: inst.host.clone(), inst, ptr_flush: false };
    let ra = recs(&ca, &t, true);
    let ptr_b = recs(&cb, &t, true)[0].clone();
    // all records: [ptrA, ptrB, srv, txt, addr...]
    let mut all = vec![ra[0].clone(), ptr_b];
    all.extend_from_slice(&ra[1..]);
    let resp = |an: &[RecDesc], ad: &[RecDesc]| message(0x8400, vec![], an, &[], ad);
    let (ifi, v4, src) = *r.pick(&links.rx);
    let inj = |hexpkt: &str| format!("inject 0 {} {} {} 5353 {}", ifi, b(v4), src, hexpkt);
    let mut parts: Vec<Vec<RecDesc>> = match r.below(5) {
        0 => vec![all.clone()],
        // the PTRs come last
        1 => vec![all[2..].to_vec(), all[..2].to_vec()],
        // both PTRs first, the rest in one or two packets
        2 => vec![all[..2].to_vec(), all[2..4].to_vec(), all[4..].to_vec()],
        // both PTRs in every packet
        3 => vec![[&all[..2], &all[2..3]].concat(), [&all[..2], &all[3..]].concat()],
        _ => {
            // both PTRs with the SRV, then TXT and addresses with both PTRs again, shuffled order
            let mut v = vec![[&all[..2], &all[4..]].concat(), [&all[..2], &all[2..4]].concat()];
            if r.chance(1, 2) {
                v.swap(0, 1);
            }
            v
        }
    };
    if r.chance(1, 4) {
        let d = parts[0].clone();
        parts.push(d); // a duplicate
    }
    for p in parts {
        if r.chance(1, 2) {
            cmds.push(inj(&resp(&p, &[])));
        } else {
            // PTRs as answers, the rest as additionals
            let (an, ad): (Vec<RecDesc>, Vec<RecDesc>) = p.iter().cloned().partition(|x| x.ty == 12);
            if an.is_empty() { cmds.push(inj(&resp(&ad, &[]))) } else { cmds.push(inj(&resp(&an, &ad))) }
        }
        if r.chance(2, 3) {
            now += *r.pick(&[0u64, 1, 100, 600]);
            cmds.push(format!("run {}", now));
        }
    }
    now += *r.pick(&[10u64, 700, 3000]);
    cmds.push(format!("run {}", now));
    now += 2000;
    cmds.push(format!("run {}", now));
    format!("sim {} {}", tag, cmds.join(" ; "))
}

pub fn generate(r: &mut Rng, prop: &str, tier: &str, emit: &mut dyn FnMut(String)) {
    let n = if tier == "thorough" { 3000 } else { 300 };
    let (tag, focus): (&'static str, Focus) = match prop {
        "C03" => ("C03", Focus::Resolve),
        "C04" => ("C04", Focus::Complete),
        _ => ("C05", Focus::Depart),
    };
    for k in 0..n {
        if prop == "C05" && k % 10 == 9 {
            emit(gen_verify(r, tag));
            continue;
        }
        if prop == "C04" && k % 10 == 7 {
            emit(gen_two_browses(r, tag));
            continue;
        }
        if k % 4 == 3 {
            // the shared scripted-responder generator (also used by C12)
            let steps = r.range(3, 12);
            let tail = *r.pick(&[3_000u64, 12_000, 130_000, 5_000_000]);
            let max_dt = *r.pick(&[1000u64, 4000, 10_000, 120_000]);
            emit(gen_scripted(r, tag, steps, tail, max_dt));
        } else {
            emit(gen_client(r, tag, focus));
        }
    }
}
