//! Multi-daemon scenario generator shared by the daemon-level properties: a client daemon
//! (0) and one or two responder daemons (1, 2) on one simulated link; real registrations,
//! browses, hostname resolutions, unregistrations, stops, verifies, shutdowns, packet
//! loss / duplication, interface changes, at times around the protocol's constants.
use crate::util::*;

pub fn hx(s: &str) -> String {
    hex(s.as_bytes())
}

pub const TYPES: &[&str] = &["_http._tcp.local.", "_ipp._tcp.local.", "_x._udp.local."];
pub const INSTANCES: &[&str] = &["web", "Web Server", "My.Dotted", "caf\u{e9}", "printer-1", "UPPER", "\u{c9}cole"];
pub const HOSTS: &[&str] = &["alpha.local.", "Beta.local.", "gamma-host.local."];

#[derive(Clone)]
pub struct Knobs {
    pub tag: &'static str,
    pub responders: u64,     // 1 or 2 responder daemons
    pub v6: bool,            // interfaces also carry an IPv6 link-local address
    pub steps: u64,          // number of scripted actions
    pub p_register: u64,     // weights of the actions
    pub p_unregister: u64,
    pub p_browse: u64,
    pub p_stop: u64,
    pub p_resolve: u64,
    pub p_verify: u64,
    pub p_shutdown: u64,
    pub p_loss: u64,
    pub p_iface: u64,
    pub p_metrics: u64,
    pub tail: u64,           // final quiet period (ms)
    pub subtype: bool,
    pub max_dt: u64,         // upper bound of the pause after each action (ms)
}

impl Knobs {
    pub fn base(tag: &'static str) -> Knobs {
        Knobs {
            tag,
            responders: 1,
            v6: false,
            steps: 6,
            p_register: 4,
            p_unregister: 2,
            p_browse: 4,
            p_stop: 1,
            p_resolve: 1,
            p_verify: 0,
            p_shutdown: 0,
            p_loss: 0,
            p_iface: 0,
            p_metrics: 0,
            tail: 20_000,
            subtype: false,
            max_dt: 100_000,
        }
    }
}

pub struct Reg {
    pub d: usize,
    pub ty: String,
    pub inst: String,
    pub host: String,
    pub fullname: String,
}

fn escape(inst: &str) -> String {
    inst.replace('\\', "\\\\").replace('.', "\\.")
}

pub fn ifaces_of(d: usize, v6: bool) -> String {
    let ip4 = format!("192.168.1.{}", 10 + 10 * d);
    if v6 {
        format!("2 {} 2 {} 24 {} 2 fe80::{} 64", hx("eth0"), ip4, hx("eth0"), 10 + 10 * d)
    } else {
        format!("1 {} 2 {} 24", hx("eth0"), ip4)
    }
}

pub fn gen_world(r: &mut Rng, k: &Knobs) -> String {
    let nd = 1 + k.responders as usize;
    let mut cmds: Vec<String> = vec![];
    for d in 0..nd {
        cmds.push(format!("daemon {}", ifaces_of(d, k.v6)));
    }
    for a in 0..nd {
        for b in (a + 1)..nd {
            cmds.push(format!("link {} 2 {} 2", a, b));
        }
    }
    let slow_ipcheck = k.p_iface == 0 || r.chance(1, 2);
    for d in 0..nd {
        if slow_ipcheck {
            cmds.push(format!("ipint {} 100000", d));
        }
        cmds.push(format!("jit {} {}", d, r.pick(&[0u64, 1, 100, 249])));
        cmds.push(format!("monitor {} {}", d, 900 + d));
    }
    let mut now = 1_000_000u64;
    cmds.push(format!("run {}", now));
    let mut chan = 0u64;
    let mut regs: Vec<Reg> = vec![];
    let mut browsed: Vec<String> = vec![];
    let mut resolved_hosts: Vec<String> = vec![];
    let weights = [
        k.p_register, k.p_unregister, k.p_browse, k.p_stop, k.p_resolve, k.p_verify, k.p_shutdown, k.p_loss,
        k.p_iface, k.p_metrics,
    ];
    let total: u64 = weights.iter().sum();
    for _ in 0..k.steps {
        let mut x = r.below(total);
        let mut action = 0;
        for (i, w) in weights.iter().enumerate() {
            if x < *w {
                action = i;
                break;
            }
            x -= w;
        }
        match action {
            0 => {
                let d = 1 + r.below(k.responders) as usize;
                let mut ty = r.pick(TYPES).to_string();
                if k.subtype && r.chance(1, 3) {
                    ty = format!("_printer._sub.{}", ty);
                }
                let inst = r.pick(INSTANCES).to_string();
                let host = r.pick(HOSTS).to_string();
                let base_ty = ty.split("._sub.").last().unwrap().to_string();
                let fullname = format!("{}.{}", escape(&inst), base_ty);
                let ip4 = format!("192.168.1.{}", 10 + 10 * d);
                let (nip, ips) = match r.below(6) {
                    0 if k.v6 => (2, format!("{} fe80::{}", ip4, 10 + 10 * d)),
                    1 => (2, format!("{} 10.9.9.9", ip4)), // one address off-link
                    _ => (1, ip4),
                };
                let props = match r.below(3) {
                    0 => "0".to_string(),
                    1 => format!("1 {} some {}", hx("path"), hx("/")),
                    _ => format!("2 {} some {} {} none", hx("Key"), hx("v=1"), hx("flag")),
                };
                let port = *r.pick(&[80u64, 8080, 631, 65535]);
                let probe = if r.chance(4, 5) { 1 } else { 0 };
                cmds.push(format!(
                    "register {} {} {} {} {} {} {} {} {} 0",
                    d,
                    hx(&ty),
                    hx(&inst),
                    hx(&host),
                    port,
                    nip,
                    ips,
                    props,
                    probe
                ));
                regs.push(Reg { d, ty: base_ty, inst, host, fullname });
            }
            1 => {
                if let Some(i) = (!regs.is_empty()).then(|| r.below(regs.len() as u64) as usize) {
                    chan += 1;
                    let reg = &regs[i];
                    let name = match r.below(4) {
                        0 => reg.fullname.to_uppercase(),
                        1 => format!("nosuch.{}", reg.ty),
                        _ => reg.fullname.clone(),
                    };
                    cmds.push(format!("unregister {} {} {}", reg.d, chan, hx(&name)));
                }
            }
            2 => {
                chan += 1;
                let ty = if !regs.is_empty() && r.chance(3, 4) {
                    regs[r.below(regs.len() as u64) as usize].ty.clone()
                } else {
                    r.pick(TYPES).to_string()
                };
                let c = if r.chance(1, 8) { "browsec" } else { "browse" };
                cmds.push(format!("{} 0 {} {}", c, chan, hx(&ty)));
                browsed.push(ty);
            }
            3 => {
                if !browsed.is_empty() && r.chance(2, 3) {
                    let ty = browsed[r.below(browsed.len() as u64) as usize].clone();
                    cmds.push(format!("stopbrowse 0 {}", hx(&ty)));
                } else if !resolved_hosts.is_empty() {
                    let h = resolved_hosts[r.below(resolved_hosts.len() as u64) as usize].clone();
                    let h = if r.chance(1, 2) { h.to_uppercase().replace(".LOCAL.", ".local.") } else { h };
                    cmds.push(format!("stopresolve 0 {}", hx(&h)));
                }
            }
            4 => {
                chan += 1;
                let h = if !regs.is_empty() && r.chance(3, 4) {
                    regs[r.below(regs.len() as u64) as usize].host.clone()
                } else {
                    r.pick(HOSTS).to_string()
                };
                let h = match r.below(3) {
                    0 => h.to_lowercase(),
                    1 => h.to_uppercase().replace(".LOCAL.", ".local."),
                    _ => h,
                };
                let t = match r.below(3) {
                    0 => "none".to_string(),
                    _ => format!("some {}", r.pick(&[1u64, 500, 1000, 2500, 5000, 130_000])),
                };
                cmds.push(format!("resolve 0 {} {} {}", chan, hx(&h), t));
                resolved_hosts.push(h);
            }
            5 => {
                if let Some(i) = (!regs.is_empty()).then(|| r.below(regs.len() as u64) as usize) {
                    cmds.push(format!(
                        "verify 0 {} {}",
                        hx(&regs[i].fullname),
                        r.pick(&[1u64, 1000, 3000, 10_000])
                    ));
                }
            }
            6 => {
                chan += 1;
                let d = r.below(nd as u64) as usize;
                cmds.push(format!("shutdown {} {}", d, chan));
            }
            7 => cmds.push(format!("{} {}", r.pick(&["drop", "drop", "dup"]), r.range(1, 3))),
            8 => {
                let d = r.below(nd as u64) as usize;
                match r.below(3) {
                    0 => cmds.push(format!("ifaces {} 0", d)),
                    1 => cmds.push(format!("ifaces {} {}", d, ifaces_of(d, !k.v6))),
                    _ => cmds.push(format!("ifaces {} {}", d, ifaces_of(d, k.v6))),
                }
            }
            _ => {
                chan += 1;
                cmds.push(format!("metrics {} {}", r.below(nd as u64), chan));
            }
        }
        now += (*r.pick(&[0u64, 1, 120, 250, 500, 999, 1000, 1001, 1500, 2000, 3000, 5000, 10_000, 60_000, 100_000])).min(k.max_dt);
        cmds.push(format!("run {}", now));
    }
    now += k.tail;
    cmds.push(format!("run {}", now));
    format!("sim {} {}", k.tag, cmds.join(" ; "))
}

// ------------------------------------------------------------------ scripted responder

use mdns_sd::verif::parser::{encode, MsgDesc, RDataView, RecDesc};
use std::net::IpAddr;

#[derive(Clone)]
pub struct Inst {
    pub ty: String,
    /// instance label as the user sees it (may contain dots, backslashes, UTF-8)
    pub label: String,
    pub host: String,
    pub port: u16,
    pub addrs: Vec<IpAddr>,
    pub txt: Vec<u8>,
}

impl Inst {
    /// textual name in the crate's escaped form (what the encoder expects)
    pub fn escaped(&self) -> String {
        format!("{}.{}", escape(&self.label), self.ty)
    }
}

pub const TXTS: &[&[u8]] = &[b"\x00", b"\x06path=/", b"\x03a=1\x04flag", b"\x05K=v=1\x01k"];

pub fn gen_inst(r: &mut Rng, k: usize) -> Inst {
    let ty = r.pick(TYPES).to_string();
    let label = format!("{}{}", r.pick(INSTANCES), k);
    let host = format!("{}{}", ["srv", "Host", "node"][k % 3], r.pick(&["-a.local.", "-B.local.", ".local."]));
    let mut addrs: Vec<IpAddr> = vec![format!("192.168.1.{}", 50 + k).parse().unwrap()];
    if r.chance(1, 3) {
        addrs.push(format!("192.168.1.{}", 150 + k).parse().unwrap());
    }
    if r.chance(1, 4) {
        addrs.push(format!("fe80::{}", 50 + k).parse().unwrap());
    }
    Inst { ty, label, host, port: *r.pick(&[80u16, 8080, 9]), addrs, txt: r.pick(TXTS).to_vec() }
}

pub struct Ttls {
    pub ptr: u32,
    pub srv: u32,
    pub txt: u32,
    pub addr: u32,
}

pub fn recs_of(i: &Inst, t: &Ttls, flush: bool) -> Vec<RecDesc> {
    let fl = if flush { 0x8001u16 } else { 1 };
    let mut v = vec![
        RecDesc { name: i.ty.clone(), ty: 12, class: 1, ttl: t.ptr, rdata: RDataView::Ptr(i.escaped()) },
        RecDesc {
            name: i.escaped(),
            ty: 33,
            class: fl,
            ttl: t.srv,
            rdata: RDataView::Srv { priority: 0, weight: 0, port: i.port, host: i.host.clone() },
        },
        RecDesc { name: i.escaped(), ty: 16, class: fl, ttl: t.txt, rdata: RDataView::Txt(i.txt.clone()) },
    ];
    for a in &i.addrs {
        v.push(RecDesc {
            name: i.host.clone(),
            ty: if a.is_ipv4() { 1 } else { 28 },
            class: fl,
            ttl: t.addr,
            rdata: RDataView::Addr { ip: *a, if_name: "x".into(), if_index: 0 },
        });
    }
    v
}

/// one response packet: `answers` in the answer section, `additionals` after them
pub fn response(answers: &[RecDesc], additionals: &[RecDesc]) -> String {
    let d = MsgDesc {
        flags: 0x8400,
        id: 0,
        questions: vec![],
        answers: answers.iter().map(|r| (r.clone(), 0)).collect(),
        authorities: vec![],
        additionals: additionals.to_vec(),
    };
    let pk = encode(&d).and_then(|v| v.into_iter().next()).unwrap_or_default();
    hex(&pk)
}

/// A response packet written by hand (no compression), for record kinds the crate's own
/// encoder does not write in wire format (`DnsNSec::write` emits the next name as text and the
/// bitmap without its block header - the crate never sends NSEC itself). `bitmap` of an NSEC
/// description is the bitmap DATA; block number 0 and the length byte are added here.
pub fn raw_response(answers: &[RecDesc], additionals: &[RecDesc]) -> String {
    fn name(p: &mut Vec<u8>, n: &str) {
        for l in mdns_sd::verif::parser::parse_escaped_name(n.strip_suffix('.').unwrap_or(n)) {
            let b = l.as_bytes();
            p.push(b.len().min(63) as u8);
            p.extend_from_slice(&b[..b.len().min(63)]);
        }
        p.push(0);
    }
    let mut p: Vec<u8> = vec![0, 0, 0x84, 0, 0, 0];
    p.extend_from_slice(&(answers.len() as u16).to_be_bytes());
    p.extend_from_slice(&[0, 0]);
    p.extend_from_slice(&(additionals.len() as u16).to_be_bytes());
    for r in answers.iter().chain(additionals.iter()) {
        name(&mut p, &r.name);
        p.extend_from_slice(&r.ty.to_be_bytes());
        p.extend_from_slice(&r.class.to_be_bytes());
        p.extend_from_slice(&r.ttl.to_be_bytes());
        let mut rd: Vec<u8> = vec![];
        match &r.rdata {
            RDataView::Addr { ip, .. } => match ip {
                std::net::IpAddr::V4(a) => rd.extend_from_slice(&a.octets()),
                std::net::IpAddr::V6(a) => rd.extend_from_slice(&a.octets()),
            },
            RDataView::Ptr(n) => name(&mut rd, n),
            RDataView::Srv { priority, weight, port, host } => {
                rd.extend_from_slice(&priority.to_be_bytes());
                rd.extend_from_slice(&weight.to_be_bytes());
                rd.extend_from_slice(&port.to_be_bytes());
                name(&mut rd, host);
            }
            RDataView::Txt(t) => rd.extend_from_slice(t),
            RDataView::Hinfo { cpu, os } => {
                rd.push(cpu.len() as u8);
                rd.extend_from_slice(cpu.as_bytes());
                rd.push(os.len() as u8);
                rd.extend_from_slice(os.as_bytes());
            }
            RDataView::Nsec { next, bitmap } => {
                name(&mut rd, next);
                rd.push(0);
                rd.push(bitmap.len() as u8);
                rd.extend_from_slice(bitmap);
            }
        }
        p.extend_from_slice(&(rd.len() as u16).to_be_bytes());
        p.extend(rd);
    }
    hex(&p)
}

const TTL_POOL: &[u32] = &[1, 2, 3, 5, 10, 10, 120, 4500];

fn inject(hexpkt: &str) -> String {
    format!("inject 0 2 1 192.168.1.50 5353 {}", hexpkt)
}

/// A client daemon (0) with browses / hostname searches and a scripted responder: crafted
/// announcements (whole, partitioned over several packets in any order, duplicated), updates
/// with the cache-flush bit, goodbyes, silent vanishing, foreign records, short and long TTLs.
pub fn gen_scripted(r: &mut Rng, tag: &str, steps: u64, tail: u64, max_dt: u64) -> String {
    gen_scripted_opts(r, tag, steps, tail, max_dt, false)
}

/// `hosts`: emphasise hostname resolution (resolve_hostname calls instead of browses) and
/// stop every search before the tail.
pub fn gen_scripted_opts(r: &mut Rng, tag: &str, steps: u64, tail: u64, max_dt: u64, hosts: bool) -> String {
    let mut cmds: Vec<String> = vec![format!("daemon {}", ifaces_of(0, r.chance(1, 4)))];
    cmds.push("ipint 0 100000".to_string());
    let ninst = r.range(1, 3) as usize;
    let mut insts: Vec<Inst> = (0..ninst).map(|k| gen_inst(r, k)).collect();
    if ninst > 1 && r.chance(1, 2) {
        // instances sharing a host
        let h = insts[0].host.clone();
        let a = insts[0].addrs.clone();
        insts[1].host = h;
        insts[1].addrs = a;
    }
    let mut now = 1_000_000u64;
    let mut chan = 0u64;
    cmds.push(format!("run {}", now));
    let mut started_types: Vec<String> = vec![];
    let mut started_hosts: Vec<String> = vec![];
    // usually search first
    if hosts {
        chan += 1;
        let h = insts[0].host.clone();
        let h = if r.chance(1, 2) { h.to_uppercase().replace(".LOCAL.", ".local.") } else { h };
        let to = if r.chance(2, 3) { "none".to_string() } else { format!("some {}", r.pick(&[1500u64, 4000, 20000, 200_000])) };
        cmds.push(format!("resolve 0 {} {} {}", chan, hx(&h), to));
        cmds.push(format!("run {}", now));
        started_hosts.push(h);
    }
    if !hosts || r.chance(1, 2) {
        if r.chance(5, 6) {
            chan += 1;
            cmds.push(format!("browse 0 {} {}", chan, hx(&insts[0].ty)));
            cmds.push(format!("run {}", now));
            started_types.push(insts[0].ty.clone());
        }
    }
    for _ in 0..steps {
        let i = r.below(ninst as u64) as usize;
        let inst = insts[i].clone();
        let t = Ttls { ptr: *r.pick(TTL_POOL), srv: *r.pick(TTL_POOL), txt: *r.pick(TTL_POOL), addr: *r.pick(TTL_POOL) };
        match r.below(14) {
            0..=2 => {
                // whole announcement: PTR as answer, rest as additionals (or everything as answers)
                let recs = recs_of(&inst, &t, true);
                if r.chance(1, 2) {
                    cmds.push(inject(&response(&recs[..1], &recs[1..])));
                } else {
                    cmds.push(inject(&response(&recs, &[])));
                }
            }
            3 | 4 => {
                // partitioned over several packets, shuffled, maybe with duplicates
                let mut recs = recs_of(&inst, &t, r.chance(3, 4));
                for k in (1..recs.len()).rev() {
                    let j = r.below(k as u64 + 1) as usize;
                    recs.swap(k, j);
                }
                if r.chance(1, 3) {
                    let d = recs[r.below(recs.len() as u64) as usize].clone();
                    recs.push(d);
                }
                let parts = r.range(2, 3) as usize;
                let mut at = 0;
                for p in 0..parts {
                    let end = if p + 1 == parts { recs.len() } else { (at + r.range(1, 2) as usize).min(recs.len()) };
                    if end > at {
                        cmds.push(inject(&response(&recs[at..end], &[])));
                        if r.chance(1, 2) {
                            now += *r.pick(&[0u64, 1, 100, 499, 500, 501, 1000]);
                            cmds.push(format!("run {}", now));
                        }
                    }
                    at = end;
                }
            }
            5 => {
                // PTR only: the daemon must ask for the rest itself
                let recs = recs_of(&inst, &t, true);
                cmds.push(inject(&response(&recs[..1], &[])));
            }
            6 => {
                // SRV/TXT only or addresses only
                let recs = recs_of(&inst, &t, true);
                if r.chance(1, 2) {
                    cmds.push(inject(&response(&recs[1..3], &[])));
                } else {
                    cmds.push(inject(&response(&recs[3..], &[])));
                }
            }
            7 => {
                // update: new port / TXT / address, cache-flush set
                let mut ni = inst.clone();
                match r.below(3) {
                    0 => ni.port = ni.port.wrapping_add(1),
                    1 => ni.txt = r.pick(TXTS).to_vec(),
                    _ => ni.addrs = vec![format!("192.168.1.{}", 200 + i).parse().unwrap()],
                }
                insts[i] = ni.clone();
                let recs = recs_of(&ni, &t, true);
                cmds.push(inject(&response(&recs[1..], &[])));
            }
            8 | 9 => {
                // goodbye for everything or for a part
                let z = Ttls { ptr: 0, srv: 0, txt: 0, addr: 0 };
                let recs = recs_of(&inst, &z, true);
                match r.below(4) {
                    0 => cmds.push(inject(&response(&recs[..1], &[]))),
                    1 => cmds.push(inject(&response(&recs[1..2], &[]))),
                    2 => cmds.push(inject(&response(&recs[3..], &[]))),
                    _ => cmds.push(inject(&response(&recs, &[]))),
                }
                if r.chance(1, 4) {
                    cmds.push(cmds.last().unwrap().clone()); // duplicated goodbye
                }
            }
            10 => {
                // foreign records: a type nobody browses, an unrelated host
                let mut f = gen_inst(r, 7);
                f.ty = "_other._tcp.local.".to_string();
                let recs = recs_of(&f, &t, true);
                if r.chance(1, 2) {
                    cmds.push(inject(&response(&recs[..1], &recs[1..])));
                } else {
                    // without any PTR: SRV/TXT/addresses of names nobody asked for
                    cmds.push(inject(&response(&recs[1..], &[])));
                }
            }
            11 => {
                chan += 1;
                match r.below(4) {
                    0 => cmds.push(format!("stopbrowse 0 {}", hx(&inst.ty))),
                    1 => {
                        cmds.push(format!("browse 0 {} {}", chan, hx(&inst.ty)));
                        started_types.push(inst.ty.clone());
                    }
                    2 => {
                        let h = if r.chance(1, 2) { inst.host.to_lowercase() } else { inst.host.to_uppercase().replace(".LOCAL.", ".local.") };
                        let to = if r.chance(1, 2) { "none".to_string() } else { format!("some {}", r.pick(&[1500u64, 4000, 20000])) };
                        cmds.push(format!("resolve 0 {} {} {}", chan, hx(&h), to));
                        started_hosts.push(h);
                    }
                    _ => cmds.push(format!("verify 0 {} {}", hx(&format!("{}.{}", inst.label, inst.ty)), r.pick(&[1000u64, 3000, 10000]))),
                }
            }
            12 => {
                chan += 1;
                cmds.push(format!("metrics 0 {}", chan));
            }
            _ => {}
        }
        now += (*r.pick(&[0u64, 1, 400, 500, 800, 999, 1000, 1001, 1600, 2000, 4000, 8000, 9500, 10_000, 96_000, 120_000])).min(max_dt);
        cmds.push(format!("run {}", now));
    }
    if hosts || r.chance(1, 2) {
        // stop everything before the tail
        for t in &started_types {
            cmds.push(format!("stopbrowse 0 {}", hx(t)));
        }
        for h in &started_hosts {
            cmds.push(format!("stopresolve 0 {}", hx(h)));
        }
        cmds.push(format!("run {}", now));
    }
    now += tail;
    cmds.push(format!("run {}", now));
    chan += 1;
    cmds.push(format!("metrics 0 {}", chan));
    cmds.push(format!("run {}", now));
    format!("sim {} {}", tag, cmds.join(" ; "))
}
