//! Multi-daemon scenario generator shared by the daemon-level properties: a client daemon
//! (0) and one or two responder daemons (1, 2) on one simulated link; real registrations,
//! browses, hostname resolutions, unregistrations, stops, verifies, shutdowns, packet
//! loss / duplication, interface changes, at times around the protocol's constants.
use crate::util::*;

pub fn hx(s: &str) -> String {
    hex(s.as_bytes())
}

pub const TYPES: &[&str] = &["_http._tcp.local.", "_ipp._tcp.local.", "_x._udp.local."];
pub const INSTANCES: &[&str] = &["web", "Web Server", "My.Dotted", "caf\u{e9}", "printer-1", "UPPER"];
pub const HOSTS: &[&str] = &["alpha.local.", "Beta.local.", "gamma-host.local."];

#[derive(Clone)]
pub struct Knobs {
    pub tag: &'static str,
    pub responders: u64,     // 1 or 2 responder daemons
    pub v6: bool,            // interfaces also carry an IPv6 link-local address
    pub steps: u64,          // number of scripted actions
    pub p_register: u64,     // weights of the actions
    pub p_unregister: u64,
    pub p_browse: u64,
    pub p_stop: u64,
    pub p_resolve: u64,
    pub p_verify: u64,
    pub p_shutdown: u64,
    pub p_loss: u64,
    pub p_iface: u64,
    pub p_metrics: u64,
    pub tail: u64,           // final quiet period (ms)
    pub subtype: bool,
    pub max_dt: u64,         // upper bound of the pause after each action (ms)
}

impl Knobs {
    pub fn base(tag: &'static str) -> Knobs {
        Knobs {
            tag,
            responders: 1,
            v6: false,
            steps: 6,
            p_register: 4,
            p_unregister: 2,
            p_browse: 4,
            p_stop: 1,
            p_resolve: 1,
            p_verify: 0,
            p_shutdown: 0,
            p_loss: 0,
            p_iface: 0,
            p_metrics: 0,
            tail: 20_000,
            subtype: false,
            max_dt: 100_000,
        }
    }
}

pub struct Reg {
    pub d: usize,
    pub ty: String,
    pub inst: String,
    pub host: String,
    pub fullname: String,
}

fn escape(inst: &str) -> String {
    inst.replace('\\', "\\\\").replace('.', "\\.")
}

pub fn ifaces_of(d: usize, v6: bool) -> String {
    let ip4 = format!("192.168.1.{}", 10 + 10 * d);
    if v6 {
        format!("2 {} 2 {} 24 {} 2 fe80::{} 64", hx("eth0"), ip4, hx("eth0"), 10 + 10 * d)
    } else {
        format!("1 {} 2 {} 24", hx("eth0"), ip4)
    }
}

pub fn gen_world(r: &mut Rng, k: &Knobs) -> String {
    let nd = 1 + k.responders as usize;
    let mut cmds: Vec<String> = vec![];
    for d in 0..nd {
        cmds.push(format!("daemon {}", ifaces_of(d, k.v6)));
    }
    for a in 0..nd {
        for b in (a + 1)..nd {
            cmds.push(format!("link {} 2 {} 2", a, b));
        }
    }
    let slow_ipcheck = k.p_iface == 0 || r.chance(1, 2);
    for d in 0..nd {
        if slow_ipcheck {
            cmds.push(format!("ipint {} 100000", d));
        }
        cmds.push(format!("jit {} {}", d, r.pick(&[0u64, 1, 100, 249])));
        cmds.push(format!("monitor {} {}", d, 900 + d));
    }
    let mut now = 1_000_000u64;
    cmds.push(format!("run {}", now));
    let mut chan = 0u64;
    let mut regs: Vec<Reg> = vec![];
    let mut browsed: Vec<String> = vec![];
    let mut resolved_hosts: Vec<String> = vec![];
    let weights = [
        k.p_register, k.p_unregister, k.p_browse, k.p_stop, k.p_resolve, k.p_verify, k.p_shutdown, k.p_loss,
        k.p_iface, k.p_metrics,
    ];
    let total: u64 = weights.iter().sum();
    for _ in 0..k.steps {
        let mut x = r.below(total);
        let mut action = 0;
        for (i, w) in weights.iter().enumerate() {
            if x < *w {
                action = i;
                break;
            }
            x -= w;
        }
        match action {
            0 => {
                let d = 1 + r.below(k.responders) as usize;
                let mut ty = r.pick(TYPES).to_string();
                if k.subtype && r.chance(1, 3) {
                    ty = format!("_printer._sub.{}", ty);
                }
                let inst = r.pick(INSTANCES).to_string();
                let host = r.pick(HOSTS).to_string();
                let base_ty = ty.split("._sub.").last().unwrap().to_string();
                let fullname = format!("{}.{}", escape(&inst), base_ty);
                let ip4 = format!("192.168.1.{}", 10 + 10 * d);
                let (nip, ips) = match r.below(6) {
                    0 if k.v6 => (2, format!("{} fe80::{}", ip4, 10 + 10 * d)),
                    1 => (2, format!("{} 10.9.9.9", ip4)), // one address off-link
                    _ => (1, ip4),
                };
                let props = match r.below(3) {
                    0 => "0".to_string(),
                    1 => format!("1 {} some {}", hx("path"), hx("/")),
                    _ => format!("2 {} some {} {} none", hx("Key"), hx("v=1"), hx("flag")),
                };
                let port = *r.pick(&[80u64, 8080, 631, 65535]);
                let probe = if r.chance(4, 5) { 1 } else { 0 };
                cmds.push(format!(
                    "register {} {} {} {} {} {} {} {} {} 0",
                    d,
                    hx(&ty),
                    hx(&inst),
                    hx(&host),
                    port,
                    nip,
                    ips,
                    props,
                    probe
                ));
                regs.push(Reg { d, ty: base_ty, inst, host, fullname });
            }
            1 => {
                if let Some(i) = (!regs.is_empty()).then(|| r.below(regs.len() as u64) as usize) {
                    chan += 1;
                    let reg = &regs[i];
                    let name = match r.below(4) {
                        0 => reg.fullname.to_uppercase(),
                        1 => format!("nosuch.{}", reg.ty),
                        _ => reg.fullname.clone(),
                    };
                    cmds.push(format!("unregister {} {} {}", reg.d, chan, hx(&name)));
                }
            }
            2 => {
                chan += 1;
                let ty = if !regs.is_empty() && r.chance(3, 4) {
                    regs[r.below(regs.len() as u64) as usize].ty.clone()
                } else {
                    r.pick(TYPES).to_string()
                };
                let c = if r.chance(1, 8) { "browsec" } else { "browse" };
                cmds.push(format!("{} 0 {} {}", c, chan, hx(&ty)));
                browsed.push(ty);
            }
            3 => {
                if !browsed.is_empty() && r.chance(2, 3) {
                    let ty = browsed[r.below(browsed.len() as u64) as usize].clone();
                    cmds.push(format!("stopbrowse 0 {}", hx(&ty)));
                } else if !resolved_hosts.is_empty() {
                    let h = resolved_hosts[r.below(resolved_hosts.len() as u64) as usize].clone();
                    let h = if r.chance(1, 2) { h.to_uppercase().replace(".LOCAL.", ".local.") } else { h };
                    cmds.push(format!("stopresolve 0 {}", hx(&h)));
                }
            }
            4 => {
                chan += 1;
                let h = if !regs.is_empty() && r.chance(3, 4) {
                    regs[r.below(regs.len() as u64) as usize].host.clone()
                } else {
                    r.pick(HOSTS).to_string()
                };
                let h = match r.below(3) {
                    0 => h.to_lowercase(),
                    1 => h.to_uppercase().replace(".LOCAL.", ".local."),
                    _ => h,
                };
                let t = match r.below(3) {
                    0 => "none".to_string(),
                    _ => format!("some {}", r.pick(&[1u64, 500, 1000, 2500, 5000, 130_000])),
                };
                cmds.push(format!("resolve 0 {} {} {}", chan, hx(&h), t));
                resolved_hosts.push(h);
            }
            5 => {
                if let Some(i) = (!regs.is_empty()).then(|| r.below(regs.len() as u64) as usize) {
                    cmds.push(format!(
                        "verify 0 {} {}",
                        hx(&regs[i].fullname),
                        r.pick(&[1u64, 1000, 3000, 10_000])
                    ));
                }
            }
            6 => {
                chan += 1;
                let d = r.below(nd as u64) as usize;
                cmds.push(format!("shutdown {} {}", d, chan));
            }
            7 => cmds.push(format!("{} {}", r.pick(&["drop", "drop", "dup"]), r.range(1, 3))),
            8 => {
                let d = r.below(nd as u64) as usize;
                match r.below(3) {
                    0 => cmds.push(format!("ifaces {} 0", d)),
                    1 => cmds.push(format!("ifaces {} {}", d, ifaces_of(d, !k.v6))),
                    _ => cmds.push(format!("ifaces {} {}", d, ifaces_of(d, k.v6))),
                }
            }
            _ => {
                chan += 1;
                cmds.push(format!("metrics {} {}", r.below(nd as u64), chan));
            }
        }
        now += (*r.pick(&[0u64, 1, 120, 250, 500, 999, 1000, 1001, 1500, 2000, 3000, 5000, 10_000, 60_000, 100_000])).min(k.max_dt);
        cmds.push(format!("run {}", now));
    }
    now += k.tail;
    cmds.push(format!("run {}", now));
    format!("sim {} {}", k.tag, cmds.join(" ; "))
}
