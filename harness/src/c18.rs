//! C18 (component level): which interfaces are selected, which addresses belong to a link.  Ops:
//!   if-match <ifkind> <iface>                          -> ok <0|1>
//!   select <n> (<ifkind> <0|1>)* <m> <iface>*          -> ok <m> <0|1>*     (`Zeroconf::selected_intfs`)
//!   resolve-addr <ifkind> <m> <iface>*                 -> ok <ifkind>       (`resolve_addr_to_index`)
//!   select-at <n> (<ifkind> <0|1> <k> <iface>*)* <m> <iface>*   -> ok <m> <0|1>*
//!       every selection is stored as `enable_interface`/`disable_interface` store it when the
//!       interface table at the time of the call is the one given with it; the loop then runs
//!       over the final table
//!   valid-ip <iphex> <ifiphex> <maskhex>               -> ok <0|1>          (`valid_ip_on_intf`)
//!   addrs-on-intf <v4 0|1> <n> <iphex>* <m> (<iphex> <maskhex>)*  -> ok <k> <iphex>* (sorted)
//!
//!   ifkind = all | ipv4 | ipv6 | name <hex> | addr <iphex> | lo4 | lo6 | idx4 <n> | idx6 <n>
//!          | pred-prefix <hex> | pred-parity <0|1>
//!   iface  = <namehex> <none | some idx> <iphex> <prefixlen>
//! `IfKind::Predicate` closures cannot travel over the line protocol: `pred-prefix p` is
//! "the interface name starts with p", `pred-parity b` is "index (0 if none) mod 2 = b"; the
//! Lean model defines the same two families.
use crate::recdesc::{ip_bytes, ip_of_bytes, read_ip};
use crate::util::*;
use if_addrs::{IfAddr, IfOperStatus, Ifv4Addr, Ifv6Addr, Interface};
use mdns_sd::verif::{info, logic};
use mdns_sd::{IfKind, IfPredicate, ServiceInfo};
use std::net::{IpAddr, Ipv4Addr, Ipv6Addr};

#[derive(Clone, Debug)]
pub enum KindTok {
    All,
    IPv4,
    IPv6,
    Name(Vec<u8>),
    Addr(IpAddr),
    Lo4,
    Lo6,
    Idx4(u32),
    Idx6(u32),
    PredPrefix(Vec<u8>),
    PredParity(bool),
}

impl KindTok {
    fn toks(&self) -> String {
        match self {
            KindTok::All => "all".into(),
            KindTok::IPv4 => "ipv4".into(),
            KindTok::IPv6 => "ipv6".into(),
            KindTok::Name(n) => format!("name {}", hex(n)),
            KindTok::Addr(a) => format!("addr {}", hex(&ip_bytes(a))),
            KindTok::Lo4 => "lo4".into(),
            KindTok::Lo6 => "lo6".into(),
            KindTok::Idx4(i) => format!("idx4 {}", i),
            KindTok::Idx6(i) => format!("idx6 {}", i),
            KindTok::PredPrefix(p) => format!("pred-prefix {}", hex(p)),
            KindTok::PredParity(p) => format!("pred-parity {}", b(*p)),
        }
    }

    fn to_kind(&self) -> Option<IfKind> {
        Some(match self {
            KindTok::All => IfKind::All,
            KindTok::IPv4 => IfKind::IPv4,
            KindTok::IPv6 => IfKind::IPv6,
            KindTok::Name(n) => IfKind::Name(String::from_utf8(n.clone()).ok()?),
            KindTok::Addr(a) => IfKind::Addr(*a),
            KindTok::Lo4 => IfKind::LoopbackV4,
            KindTok::Lo6 => IfKind::LoopbackV6,
            KindTok::Idx4(i) => IfKind::IndexV4(*i),
            KindTok::Idx6(i) => IfKind::IndexV6(*i),
            KindTok::PredPrefix(p) => {
                let p = String::from_utf8(p.clone()).ok()?;
                IfKind::Predicate(IfPredicate::new(move |i: &Interface| i.name.starts_with(&p)))
            }
            KindTok::PredParity(par) => {
                let par = *par as u32;
                IfKind::Predicate(IfPredicate::new(move |i: &Interface| i.index.unwrap_or(0) % 2 == par))
            }
        })
    }
}

fn read_kind(t: &mut Toks) -> Option<KindTok> {
    Some(match t.tok()? {
        "all" => KindTok::All,
        "ipv4" => KindTok::IPv4,
        "ipv6" => KindTok::IPv6,
        "name" => KindTok::Name(t.hex()?),
        "addr" => KindTok::Addr(read_ip(t)?),
        "lo4" => KindTok::Lo4,
        "lo6" => KindTok::Lo6,
        "idx4" => KindTok::Idx4(u32::try_from(t.nat()?).ok()?),
        "idx6" => KindTok::Idx6(u32::try_from(t.nat()?).ok()?),
        "pred-prefix" => KindTok::PredPrefix(t.hex()?),
        "pred-parity" => KindTok::PredParity(t.boolean()?),
        _ => return None,
    })
}

/// What the crate stored for a selection: only `Addr` can have turned into an index kind.
fn kind_view(k: &IfKind, orig: &KindTok) -> KindTok {
    match k {
        IfKind::IndexV4(i) => KindTok::Idx4(*i),
        IfKind::IndexV6(i) => KindTok::Idx6(*i),
        IfKind::Addr(a) => KindTok::Addr(*a),
        _ => orig.clone(),
    }
}

#[derive(Clone, Debug)]
pub struct IfaceTok {
    pub name: Vec<u8>,
    pub index: Option<u32>,
    pub ip: IpAddr,
    pub prefix: u8,
}

pub fn mask_v4(p: u8) -> Ipv4Addr {
    let p = p.min(32) as u32;
    Ipv4Addr::from(if p == 0 { 0 } else { u32::MAX << (32 - p) })
}

pub fn mask_v6(p: u8) -> Ipv6Addr {
    let p = p.min(128) as u32;
    Ipv6Addr::from(if p == 0 { 0 } else { u128::MAX << (128 - p) })
}

impl IfaceTok {
    fn toks(&self) -> String {
        let idx = match self.index {
            None => "none".to_string(),
            Some(i) => format!("some {}", i),
        };
        format!("{} {} {} {}", hex(&self.name), idx, hex(&ip_bytes(&self.ip)), self.prefix)
    }

    fn to_interface(&self) -> Option<Interface> {
        let addr = match self.ip {
            IpAddr::V4(ip) => {
                IfAddr::V4(Ifv4Addr { ip, netmask: mask_v4(self.prefix), prefixlen: self.prefix, broadcast: None })
            }
            IpAddr::V6(ip) => {
                IfAddr::V6(Ifv6Addr { ip, netmask: mask_v6(self.prefix), prefixlen: self.prefix, broadcast: None })
            }
        };
        Some(Interface {
            name: String::from_utf8(self.name.clone()).ok()?,
            addr,
            index: self.index,
            oper_status: IfOperStatus::Up,
            is_p2p: false,
        })
    }
}

fn read_iface(t: &mut Toks) -> Option<IfaceTok> {
    let name = t.hex()?;
    let index = match t.tok()? {
        "none" => None,
        "some" => Some(u32::try_from(t.nat()?).ok()?),
        _ => return None,
    };
    let ip = read_ip(t)?;
    let prefix = u8::try_from(t.nat()?).ok()?;
    Some(IfaceTok { name, index, ip, prefix })
}

fn read_ifaces(t: &mut Toks) -> Option<Vec<Interface>> {
    let n = t.nat()? as usize;
    (0..n).map(|_| read_iface(t)?.to_interface()).collect()
}

fn if_addr(ip: IpAddr, mask: IpAddr) -> Option<IfAddr> {
    Some(match (ip, mask) {
        (IpAddr::V4(ip), IpAddr::V4(netmask)) => IfAddr::V4(Ifv4Addr { ip, netmask, prefixlen: 0, broadcast: None }),
        (IpAddr::V6(ip), IpAddr::V6(netmask)) => IfAddr::V6(Ifv6Addr { ip, netmask, prefixlen: 0, broadcast: None }),
        _ => return None,
    })
}

fn bools(v: &[bool]) -> String {
    let mut s = format!("ok {}", v.len());
    for x in v {
        s.push(' ');
        s.push_str(b(*x));
    }
    s
}

pub fn exec(op: &str, t: &mut Toks) -> Option<String> {
    match op {
        "if-match" => {
            let k = read_kind(t)?.to_kind()?;
            let i = read_iface(t)?.to_interface()?;
            Some(match guarded(std::panic::AssertUnwindSafe(move || logic::if_kind_matches(&k, &i))) {
                None => "panic".to_string(),
                Some(m) => format!("ok {}", b(m)),
            })
        }
        "select" => {
            let n = t.nat()? as usize;
            let mut sels = Vec::with_capacity(n);
            for _ in 0..n {
                let k = read_kind(t)?.to_kind()?;
                sels.push((k, t.boolean()?));
            }
            let ifaces = read_ifaces(t)?;
            Some(match guarded(std::panic::AssertUnwindSafe(move || logic::selected(&sels, ifaces))) {
                None => "panic".to_string(),
                Some(None) => return None,
                Some(Some(v)) => bools(&v),
            })
        }
        "resolve-addr" => {
            let kt = read_kind(t)?;
            let k = kt.to_kind()?;
            let ifaces = read_ifaces(t)?;
            Some(match guarded(std::panic::AssertUnwindSafe(move || logic::resolve_addr(k, &ifaces))) {
                None => "panic".to_string(),
                Some(k2) => format!("ok {}", kind_view(&k2, &kt).toks()),
            })
        }
        "select-at" => {
            let n = t.nat()? as usize;
            let mut calls = Vec::with_capacity(n);
            for _ in 0..n {
                let k = read_kind(t)?.to_kind()?;
                let on = t.boolean()?;
                calls.push((k, on, read_ifaces(t)?));
            }
            let ifaces = read_ifaces(t)?;
            Some(
                match guarded(std::panic::AssertUnwindSafe(move || {
                    let sels: Vec<(IfKind, bool)> =
                        calls.into_iter().map(|(k, on, table)| (logic::resolve_addr(k, &table), on)).collect();
                    logic::selected(&sels, ifaces)
                })) {
                    None => "panic".to_string(),
                    Some(None) => return None,
                    Some(Some(v)) => bools(&v),
                },
            )
        }
        "valid-ip" => {
            let ip = read_ip(t)?;
            let ifip = read_ip(t)?;
            let mask = read_ip(t)?;
            let ifa = if_addr(ifip, mask)?;
            Some(match guarded(move || info::valid_ip(&ip, &ifa)) {
                None => "panic".to_string(),
                Some(v) => format!("ok {}", b(v)),
            })
        }
        "addrs-on-intf" => {
            let v4 = t.boolean()?;
            let n = t.nat()? as usize;
            let addrs: Vec<IpAddr> = (0..n).map(|_| read_ip(t)).collect::<Option<_>>()?;
            let m = t.nat()? as usize;
            let mut ifas = Vec::with_capacity(m);
            for _ in 0..m {
                let ip = read_ip(t)?;
                let mask = read_ip(t)?;
                ifas.push(if_addr(ip, mask)?);
            }
            let r = guarded(move || {
                let si = ServiceInfo::new("_c18._udp.local.", "inst", "host.local.", &addrs[..], 80, None::<std::collections::HashMap<String, String>>).ok()?;
                Some(info::addrs_on_intf(&si, &ifas, v4))
            });
            Some(match r {
                None => "panic".to_string(),
                Some(None) => return None,
                Some(Some(found)) => {
                    let mut l: Vec<Vec<u8>> = found.iter().map(ip_bytes).collect();
                    l.sort();
                    let mut s = format!("ok {}", l.len());
                    for x in &l {
                        s.push(' ');
                        s.push_str(&hex(x));
                    }
                    s
                }
            })
        }
        _ => None,
    }
}

// ------------------------------------------------------------------------ generators

fn ip4(s: &str) -> IpAddr {
    s.parse().unwrap()
}

fn iface_pool() -> Vec<IfaceTok> {
    let t = |name: &str, index: Option<u32>, ip: &str, prefix: u8| IfaceTok {
        name: name.as_bytes().to_vec(),
        index,
        ip: ip.parse().unwrap(),
        prefix,
    };
    vec![
        t("eth0", Some(2), "192.168.1.10", 24),
        t("eth0", Some(2), "fe80::1", 64),
        t("eth0", Some(2), "192.168.2.10", 24),
        t("eth1", Some(3), "10.0.0.5", 8),
        t("eth1", Some(3), "fe80::2", 64),
        t("lo", Some(1), "127.0.0.1", 8),
        t("lo", Some(1), "::1", 128),
        t("lo2", Some(5), "127.1.2.3", 8),
        t("wlan0", None, "192.168.1.77", 24),
        t("wlan0", Some(0), "2001:db8::7", 64),
        t("eth10", Some(4), "172.16.0.1", 12),
    ]
}

fn kind_alphabet() -> Vec<KindTok> {
    vec![
        KindTok::All,
        KindTok::IPv4,
        KindTok::IPv6,
        KindTok::Name(b"eth0".to_vec()),
        KindTok::Name(b"lo".to_vec()),
        KindTok::Addr(ip4("192.168.1.10")),
        KindTok::Addr("fe80::2".parse().unwrap()),
        KindTok::Addr(ip4("192.168.9.9")),
        KindTok::Lo4,
        KindTok::Lo6,
        KindTok::Idx4(2),
        KindTok::Idx6(2),
        KindTok::Idx4(0),
        KindTok::Idx6(3),
        KindTok::PredPrefix(b"eth".to_vec()),
        KindTok::PredPrefix(b"eth1".to_vec()),
        KindTok::PredPrefix(vec![]),
        KindTok::PredParity(false),
        KindTok::PredParity(true),
    ]
}

fn ifaces_toks(v: &[IfaceTok]) -> String {
    let mut s = format!("{}", v.len());
    for i in v {
        s.push(' ');
        s.push_str(&i.toks());
    }
    s
}

fn gen_table(r: &mut Rng, pool: &[IfaceTok], max: u64) -> Vec<IfaceTok> {
    let n = r.range(0, max) as usize;
    (0..n).map(|_| r.pick(pool).clone()).collect()
}

fn mask_of(ip: &IpAddr, p: u8) -> IpAddr {
    match ip {
        IpAddr::V4(_) => IpAddr::V4(mask_v4(p)),
        IpAddr::V6(_) => IpAddr::V6(mask_v6(p)),
    }
}

fn flip_bit(ip: &IpAddr, bit: usize) -> IpAddr {
    let mut bytes = ip_bytes(ip);
    let n = bytes.len();
    bytes[(bit / 8) % n] ^= 0x80 >> (bit % 8);
    ip_of_bytes(&bytes).unwrap()
}

pub fn generate(r: &mut Rng, tier: &str, emit: &mut dyn FnMut(String)) {
    let thorough = tier == "thorough";
    let pool = iface_pool();
    let kinds = kind_alphabet();
    // 1. every kind against every interface of the pool
    for k in &kinds {
        for i in &pool {
            emit(format!("if-match {} {}", k.toks(), i.toks()));
        }
    }
    // 2. selection sequences up to length 4, exhaustively over a small alphabet, on fixed
    //    topologies of 1 to 3 interfaces (length 3 over the full alphabet in the thorough tier)
    let small: Vec<(KindTok, bool)> = [
        KindTok::All,
        KindTok::IPv6,
        KindTok::Name(b"eth0".to_vec()),
        KindTok::Idx4(3),
        KindTok::Lo4,
        KindTok::PredParity(true),
    ]
    .iter()
    .flat_map(|k| [(k.clone(), false), (k.clone(), true)])
    .collect();
    let topologies: Vec<Vec<IfaceTok>> = vec![
        vec![pool[0].clone()],
        vec![pool[0].clone(), pool[1].clone()],
        vec![pool[0].clone(), pool[3].clone(), pool[5].clone()],
        vec![pool[1].clone(), pool[4].clone(), pool[6].clone()],
        vec![pool[3].clone(), pool[8].clone(), pool[0].clone()],
    ];
    // lengths 0..3 over all six kinds, length 4 over the first four
    let max_len = 4;
    let mut seqs: Vec<Vec<(KindTok, bool)>> = vec![vec![]];
    let mut frontier: Vec<Vec<(KindTok, bool)>> = vec![vec![]];
    for len in 0..max_len {
        let mut next = vec![];
        for s in &frontier {
            if len == 3 && s.iter().any(|(k, _)| matches!(k, KindTok::Lo4 | KindTok::PredParity(_))) {
                continue;
            }
            for x in &small[..if len == 3 { 8 } else { small.len() }] {
                let mut s2 = s.clone();
                s2.push(x.clone());
                next.push(s2);
            }
        }
        seqs.extend(next.iter().cloned());
        frontier = next;
    }
    let sel_toks = |s: &[(KindTok, bool)]| {
        let mut o = format!("{}", s.len());
        for (k, on) in s {
            o.push_str(&format!(" {} {}", k.toks(), b(*on)));
        }
        o
    };
    for (i, s) in seqs.iter().enumerate() {
        // every sequence on one topology (all of them for the short sequences)
        if s.len() <= 2 || thorough {
            for topo in &topologies {
                emit(format!("select {} {}", sel_toks(s), ifaces_toks(topo)));
            }
        } else {
            emit(format!("select {} {}", sel_toks(s), ifaces_toks(&topologies[i % topologies.len()])));
        }
    }
    // 3. random sequences over the full kind alphabet, random tables (duplicates, empty table)
    let n = if thorough { 30000 } else { 3000 };
    for _ in 0..n {
        let len = r.range(0, 6) as usize;
        let s: Vec<(KindTok, bool)> = (0..len).map(|_| (r.pick(&kinds).clone(), r.chance(1, 2))).collect();
        let table = gen_table(r, &pool, 4);
        emit(format!("select {} {}", sel_toks(&s), ifaces_toks(&table)));
    }
    // 4. Addr selections are resolved against the table present at the time of the call
    for k in &kinds {
        for _ in 0..6 {
            let table = gen_table(r, &pool, 3);
            emit(format!("resolve-addr {} {}", k.toks(), ifaces_toks(&table)));
        }
    }
    for _ in 0..n / 2 {
        let len = r.range(1, 4) as usize;
        let mut line = format!("select-at {}", len);
        for _ in 0..len {
            let k = if r.chance(1, 2) {
                KindTok::Addr(r.pick(&pool).ip)
            } else {
                r.pick(&kinds).clone()
            };
            let table = gen_table(r, &pool, 3);
            line.push_str(&format!(" {} {} {}", k.toks(), b(r.chance(1, 2)), ifaces_toks(&table)));
        }
        let table = gen_table(r, &pool, 4);
        line.push_str(&format!(" {}", ifaces_toks(&table)));
        emit(line);
    }
    // 5. subnet membership: every prefix length, the address differing from the interface
    //    address in exactly one bit around the prefix boundary; non-contiguous masks;
    //    mixed families
    let bases: Vec<IpAddr> =
        vec![ip4("192.168.1.10"), ip4("10.255.0.1"), ip4("0.0.0.0"), "fe80::1234:5678".parse().unwrap(), "2001:db8:ffff::1".parse().unwrap()];
    for base in &bases {
        let bits: usize = if base.is_ipv4() { 32 } else { 128 };
        for p in 0..=bits {
            if bits == 128 && !thorough && ![0, 1, 7, 8, 9, 63, 64, 65, 127, 128].contains(&p) {
                continue;
            }
            let mask = mask_of(base, p as u8);
            for bit in [p.saturating_sub(1), p, p + 1] {
                if bit >= bits {
                    continue;
                }
                let other = flip_bit(base, bit);
                emit(format!("valid-ip {} {} {}", hex(&ip_bytes(&other)), hex(&ip_bytes(base)), hex(&ip_bytes(&mask))));
            }
            emit(format!("valid-ip {} {} {}", hex(&ip_bytes(base)), hex(&ip_bytes(base)), hex(&ip_bytes(&mask))));
        }
    }
    for (ip, ifip, mask) in [
        ("192.168.1.10", "192.168.3.10", "255.255.253.0"),
        ("192.168.1.10", "192.168.2.10", "255.255.253.0"),
        ("192.168.1.10", "fe80::1", "ffff:ffff:ffff:ffff::"),
        ("fe80::1", "192.168.1.1", "255.255.255.0"),
        ("::ffff:192.168.1.10", "192.168.1.1", "255.255.255.0"),
        ("fe80::1", "fe80::2", "ffff:ffff:ffff:ffff::"),
        ("fe80::1", "fe81::2", "ffff:ffff:ffff:ffff::"),
        ("fe80::1", "fe80::2", "ffff:ffff:ffff:ffff:ffff:ffff:ffff:ffff"),
    ] {
        let (ip, ifip, mask): (IpAddr, IpAddr, IpAddr) = (ip.parse().unwrap(), ifip.parse().unwrap(), mask.parse().unwrap());
        emit(format!("valid-ip {} {} {}", hex(&ip_bytes(&ip)), hex(&ip_bytes(&ifip)), hex(&ip_bytes(&mask))));
    }
    // 6. the addresses of a service that belong on an interface
    let svc_pool: Vec<IpAddr> = vec![
        ip4("192.168.1.20"),
        ip4("192.168.2.20"),
        ip4("10.1.2.3"),
        ip4("127.0.0.1"),
        ip4("172.16.5.5"),
        "fe80::99".parse().unwrap(),
        "2001:db8::99".parse().unwrap(),
        "::1".parse().unwrap(),
    ];
    for _ in 0..n / 3 {
        let na = r.range(0, 4) as usize;
        let mut addrs: Vec<IpAddr> = vec![];
        for _ in 0..na {
            let a = *r.pick(&svc_pool);
            if !addrs.contains(&a) {
                addrs.push(a);
            }
        }
        let nm = r.range(0, 3) as usize;
        let mut line = format!("addrs-on-intf {} {}", b(r.chance(1, 2)), addrs.len());
        for a in &addrs {
            line.push_str(&format!(" {}", hex(&ip_bytes(a))));
        }
        line.push_str(&format!(" {}", nm));
        for _ in 0..nm {
            let i = r.pick(&pool);
            let p = if r.chance(1, 4) { *r.pick(&[0u8, 1, 16, 32, 128]) } else { i.prefix };
            line.push_str(&format!(" {} {}", hex(&ip_bytes(&i.ip)), hex(&ip_bytes(&mask_of(&i.ip, p)))));
        }
        emit(line);
    }
}

/// Daemon-level histories (`sim C18`): ONE daemon on one to three simulated interfaces (IPv4
/// only, IPv6 only, dual stack, differing subnets), a browse (and sometimes a hostname
/// search), announcements of a dual-stack responder delivered on chosen links - so that an
/// IPv4-only interface learns AAAA records too -, own registrations, then enable / disable
/// selections of every kind and changes of the interface table, and finally a fresh browse
/// that reports from the cache.
pub fn gen_links(r: &mut crate::util::Rng) -> String {
    use crate::scen::*;
    use crate::util::hex;
    // (name, index, ip, prefix, v4, source address of a peer on that link)
    let topo: Vec<(&str, u32, &str, u8, bool, &str)> = match r.below(6) {
        0 => vec![("eth0", 2, "192.168.1.10", 24, true, "192.168.1.50")],
        1 => vec![("eth0", 2, "192.168.1.10", 24, true, "192.168.1.50"), ("eth0", 2, "fe80::10", 64, false, "fe80::50")],
        2 => vec![("eth0", 2, "192.168.1.10", 24, true, "192.168.1.50"), ("eth1", 3, "10.0.0.5", 8, true, "10.0.0.50")],
        3 => vec![
            ("eth0", 2, "192.168.1.10", 24, true, "192.168.1.50"),
            ("eth0", 2, "fe80::10", 64, false, "fe80::50"),
            ("eth1", 3, "fd00::5", 64, false, "fd00::50"),
        ],
        4 => vec![("eth1", 3, "fd00::5", 64, false, "fd00::50")],
        _ => vec![
            ("eth0", 2, "192.168.1.10", 24, true, "192.168.1.50"),
            ("eth1", 3, "10.0.0.5", 8, true, "10.0.0.50"),
            ("eth2", 4, "172.16.0.5", 16, true, "172.16.0.50"),
        ],
    };
    let table = |t: &[(&str, u32, &str, u8, bool, &str)]| -> String {
        let mut s = format!("{}", t.len());
        for (n, i, ip, p, _, _) in t {
            s.push_str(&format!(" {} {} {} {}", hx(n), i, ip, p));
        }
        s
    };
    let mut cmds: Vec<String> = vec![format!("daemon {}", table(&topo))];
    let ipint = *r.pick(&[1u64, 1, 5, 100_000]);
    cmds.push(format!("ipint 0 {}", ipint));
    let mut now = 1_000_000u64;
    cmds.push(format!("run {}", now));
    let ninst = r.range(1, 2) as usize;
    let insts: Vec<Inst> = (0..ninst)
        .map(|k| {
            let mut i = gen_inst(r, k);
            i.label = format!("svc{}", k);
            i.ty = "_http._tcp.local.".to_string();
            i.host = format!("{}{}.local.", r.pick(&["peer", "Peer", "PEER-Host"]), k);
            // a dual-stack responder: one address per subnet of the topology plus stray ones
            i.addrs = vec![
                "192.168.1.50".parse().unwrap(),
                "fe80::50".parse().unwrap(),
                "10.0.0.50".parse().unwrap(),
                "fd00::50".parse().unwrap(),
            ];
            i.addrs.truncate(r.range(2, 4) as usize);
            i
        })
        .collect();
    cmds.push(format!("browse 0 1 {}", hx("_http._tcp.local.")));
    if r.chance(1, 3) {
        cmds.push(format!("resolve 0 2 {} none", hx(&insts[0].host)));
    }
    cmds.push(format!("run {}", now));
    if r.chance(1, 3) {
        // an own service with addresses on several subnets
        cmds.push(format!(
            "register 0 {} {} {} 80 3 192.168.1.10 10.0.0.5 fd00::5 0 {} 0",
            hx("_x._udp.local."),
            hx("mine"),
            hx("me.local."),
            r.below(2)
        ));
    }
    let long = Ttls { ptr: 4500, srv: 120, txt: 4500, addr: 120 };
    let deliver = |r: &mut crate::util::Rng, cmds: &mut Vec<String>, t: &[(&str, u32, &str, u8, bool, &str)]| {
        for inst in &insts {
            let recs = recs_of(inst, &long, true);
            if t.len() > 1 && r.chance(1, 2) {
                // a multi-homed peer heard piecewise: PTR, SRV and TXT on the first link only, its
                // address records (by themselves) on every link
                let l = &t[0];
                cmds.push(format!("inject 0 {} {} {} 5353 {}", l.1, if l.4 { 1 } else { 0 }, l.5, response(&recs[..1], &recs[1..3])));
                for l in t {
                    cmds.push(format!("inject 0 {} {} {} 5353 {}", l.1, if l.4 { 1 } else { 0 }, l.5, response(&recs[3..], &[])));
                }
                continue;
            }
            // on one or several links of the current table
            for l in t {
                if r.chance(2, 3) {
                    cmds.push(format!(
                        "inject 0 {} {} {} 5353 {}",
                        l.1,
                        if l.4 { 1 } else { 0 },
                        l.5,
                        response(&recs[..1], &recs[1..])
                    ));
                }
            }
        }
    };
    deliver(r, &mut cmds, &topo);
    now += *r.pick(&[100u64, 1000, 2500]);
    cmds.push(format!("run {}", now));
    // selections and table changes
    let mut cur = topo.clone();
    for _ in 0..r.range(1, 3) {
        match r.below(10) {
            0..=5 => {
                let kind = match r.below(8) {
                    0 => "all".to_string(),
                    1 => "v4".to_string(),
                    2 => "v6".to_string(),
                    3 => format!("name {}", hx(*r.pick(&["eth0", "eth1", "eth2"]))),
                    4 => format!("addr {}", r.pick(&topo).2),
                    5 => format!("idx4 {}", r.pick(&[2u32, 3, 4])),
                    6 => format!("idx6 {}", r.pick(&[2u32, 3])),
                    _ => format!("name {}", hx("eth0")),
                };
                let on = r.chance(1, 4);
                cmds.push(format!("{} 0 {}", if on { "enable" } else { "disable" }, kind));
            }
            6 | 7 => {
                // an interface (or one address of it) disappears; maybe another appears
                if !cur.is_empty() && (cur.len() > 1 || r.chance(1, 2)) {
                    let k = r.below(cur.len() as u64) as usize;
                    cur.remove(k);
                }
                if r.chance(1, 4) {
                    cur.push(("eth9", 9, "192.168.9.5", 24, true, "192.168.9.50"));
                }
                cmds.push(format!("ifaces 0 {}", table(&cur)));
            }
            8 => {
                cur = topo.clone();
                cmds.push(format!("ifaces 0 {}", table(&cur)));
            }
            _ => deliver(r, &mut cmds, &cur),
        }
        now += *r.pick(&[0u64, 500, 1500, 6000]);
        cmds.push(format!("run {}", now));
    }
    // let the interface check run, then report from the cache on a fresh channel
    // (the first check of a daemon comes 5 s after its start, later ones `ipint` apart)
    now = if ipint <= 5 { now.max(1_005_000) + ipint * 1000 + 2500 } else { now + 2000 };
    cmds.push(format!("run {}", now));
    cmds.push(format!("browse 0 5 {}", hx("_http._tcp.local.")));
    if r.chance(1, 2) {
        cmds.push(format!("resolve 0 6 {} none", hx(&insts[0].host)));
    }
    now += 1500;
    cmds.push(format!("run {}", now));
    let _ = hex(&[]);
    format!("sim C18 {}", cmds.join(" ; "))
}

/// An auto-addressed service (`enable_addr_auto`) on a daemon whose OS interface table changes:
/// a second address (other subnet or other family) appears on an interface in use, one address of
/// a multi-address interface is replaced, a whole interface appears or disappears, a
/// single-address interface changes its address.  The service must follow: new addresses are
/// probed and announced after the next interface check, removed ones are not sent any more.
/// `tag`: "sim C18" (monitor MonLink.monitorAuto) or "sim2 C12" (the same history under two
/// schedulers: the probes on a new interface must be woken for, not wait for the next check).
pub fn gen_auto_follow(r: &mut crate::util::Rng, tag: &str) -> String {
    use crate::util::hex;
    let hx = |s: &str| hex(s.as_bytes());
    type Row = (&'static str, u32, &'static str, u8);
    let t0: Vec<Row> = match r.below(4) {
        0 => vec![("eth0", 2, "192.168.1.10", 24)],
        1 => vec![("eth0", 2, "192.168.1.10", 24), ("eth0", 2, "fe80::10", 64)],
        2 => vec![("eth0", 2, "192.168.1.10", 24), ("eth1", 3, "10.0.0.5", 8)],
        _ => vec![("eth0", 2, "192.168.1.10", 24), ("eth0", 2, "10.2.0.5", 16)],
    };
    let table = |t: &[Row]| -> String {
        let mut s = format!("{}", t.len());
        for (n, i, ip, p) in t {
            s.push_str(&format!(" {} {} {} {}", hx(n), i, ip, p));
        }
        s
    };
    let ipint = *r.pick(&[1u64, 1, 5]);
    let mut cmds: Vec<String> = vec![format!("daemon {}", table(&t0)), format!("ipint 0 {}", ipint)];
    if r.chance(3, 4) {
        cmds.push("monitor 0 900".to_string());
    }
    let mut now = 1_000_000u64;
    cmds.push(format!("run {}", now));
    cmds.push(format!("jit 0 {}", r.pick(&[0u64, 100, 249])));
    cmds.push(format!("register 0 {} {} {} 80 0 0 1 1", hx("_x._udp.local."), hx("auto"), hx("autohost.local.")));
    // past the first interface check (start + 5 s), announced twice
    now += 6000;
    cmds.push(format!("run {}", now));
    let mut cur = t0.clone();
    for _ in 0..r.range(1, 2) {
        let has = |c: &[Row], ip: &str| c.iter().any(|x| x.2 == ip);
        match r.below(7) {
            // a second IPv4 address, other subnet, on eth0
            0 if !has(&cur, "10.2.0.5") => cur.push(("eth0", 2, "10.2.0.5", 16)),
            // the other family on eth0
            1 if !has(&cur, "fe80::10") => cur.push(("eth0", 2, "fe80::10", 64)),
            // one address of a multi-address interface replaced
            2 if has(&cur, "fe80::10") => {
                cur.retain(|x| x.2 != "fe80::10");
                cur.push(("eth0", 2, "fe80::11", 64));
            }
            2 if has(&cur, "10.2.0.5") => {
                cur.retain(|x| x.2 != "10.2.0.5");
                cur.push(("eth0", 2, "10.2.0.9", 16));
            }
            // a new interface
            3 if !has(&cur, "172.16.0.5") => cur.push(("eth2", 4, "172.16.0.5", 16)),
            // a single-address interface changes its address (deleted and added again)
            4 if cur.iter().filter(|x| x.1 == 2).count() == 1 && has(&cur, "192.168.1.10") => {
                cur.retain(|x| x.2 != "192.168.1.10");
                cur.push(("eth0", 2, "192.168.1.11", 24));
            }
            // an address / interface disappears (never the last one)
            5 if cur.len() > 1 => {
                let k = r.below(cur.len() as u64) as usize;
                cur.remove(k);
            }
            _ => {
                if !has(&cur, "10.0.0.5") {
                    cur.push(("eth1", 3, "10.0.0.5", 8));
                } else {
                    cur.retain(|x| x.2 != "10.0.0.5");
                }
            }
        }
        cmds.push(format!("ifaces 0 {}", table(&cur)));
        now += ipint * 1000 + *r.pick(&[3500u64, 5000, 7000]);
        cmds.push(format!("run {}", now));
    }
    now += 2000;
    cmds.push(format!("run {}", now));
    format!("{} {}", tag, cmds.join(" ; "))
}

/// A service with EXPLICIT addresses (not auto-addressed) and an interface the daemon learns about
/// only after the registration - found by the periodic check, or enabled after having been
/// disabled - whose subnet holds one of the service's addresses.  The service was never probed
/// or announced there; `unregister` (and a query) must not speak for it there.  Tag "sim C09".
pub fn gen_late_interface_unregister(r: &mut crate::util::Rng) -> String {
    use crate::util::hex;
    let hx = |s: &str| hex(s.as_bytes());
    let eth0 = format!("{} 2 192.168.1.10 24", hx("eth0"));
    let eth1 = format!("{} 3 10.0.1.10 24", hx("eth1"));
    let by_check = r.chance(1, 2);
    let mut cmds: Vec<String> = vec![];
    if by_check {
        cmds.push(format!("daemon 1 {}", eth0));
    } else {
        cmds.push(format!("daemon 2 {} {}", eth0, eth1));
    }
    let ipint = *r.pick(&[1u64, 1, 5]);
    cmds.push(format!("ipint 0 {}", ipint));
    if r.chance(3, 4) {
        cmds.push("monitor 0 900".to_string());
    }
    let mut now = 1_000_000u64;
    cmds.push(format!("run {}", now));
    if !by_check {
        cmds.push(format!("disable 0 name {}", hx("eth1")));
        cmds.push(format!("run {}", now));
    }
    cmds.push(format!("jit 0 {}", r.pick(&[0u64, 100, 249])));
    cmds.push(format!(
        "register 0 {} {} {} 80 2 192.168.1.20 10.0.1.5 0 1 0",
        hx("_x._udp.local."),
        hx("late"),
        hx("latehost.local.")
    ));
    now += 6000;
    cmds.push(format!("run {}", now));
    if by_check {
        cmds.push(format!("ifaces 0 2 {} {}", eth0, eth1));
    } else {
        cmds.push(format!("enable 0 name {}", hx("eth1")));
    }
    now += ipint * 1000 + *r.pick(&[1500u64, 4000]);
    cmds.push(format!("run {}", now));
    if r.chance(1, 2) {
        // a question on the new link
        let d = mdns_sd::verif::parser::MsgDesc { questions: vec![("_x._udp.local.".to_string(), 12)], ..Default::default() };
        let q = mdns_sd::verif::parser::encode(&d).and_then(|v| v.into_iter().next()).unwrap_or_default();
        cmds.push(format!("inject 0 3 1 10.0.1.50 5353 {}", hex(&q)));
        now += 500;
        cmds.push(format!("run {}", now));
    }
    cmds.push(format!("unregister 0 1 {}", hx("late._x._udp.local.")));
    now += *r.pick(&[50u64, 1000]);
    cmds.push(format!("run {}", now));
    now += 2000;
    cmds.push(format!("run {}", now));
    format!("sim C09 {}", cmds.join(" ; "))
}

pub fn generate_daemon(r: &mut crate::util::Rng, tier: &str, emit: &mut dyn FnMut(String)) {
    let n = if tier == "thorough" { 3000 } else { 300 };
    for k in 0..n {
        if k % 5 == 4 {
            emit(gen_auto_follow(r, "sim C18"));
        } else {
            emit(gen_links(r));
        }
    }
}
