//! C19: query back-off schedule, observed on real daemon threads over long virtual horizons.
use crate::util::*;

pub const TYPES: &[&str] = &["_http._tcp.local.", "_ipp._tcp.local.", "_x._udp.local.", "_printer._sub._http._tcp.local."];
pub const HOSTS: &[&str] = &["host1.local.", "Host1.local.", "printer.local.", "MiXed-Case.local."];

pub fn hx(s: &str) -> String {
    hex(s.as_bytes())
}

pub fn gen_ifaces(r: &mut Rng) -> String {
    match r.below(4) {
        0 => format!("1 {} 2 192.168.1.10 24", hx("eth0")),
        1 => format!("2 {} 2 192.168.1.10 24 {} 3 10.0.0.5 8", hx("eth0"), hx("eth1")),
        2 => format!("2 {} 2 192.168.1.10 24 {} 2 fe80::10 64", hx("eth0"), hx("eth0")),
        _ => format!("3 {} 2 192.168.1.10 24 {} 2 fe80::10 64 {} 3 10.0.0.5 8", hx("eth0"), hx("eth0"), hx("eth1")),
    }
}

/// Silent network: searches started, repeated and stopped at arbitrary times, observed for
/// hours to days of virtual time.
pub fn gen_silent(r: &mut Rng) -> String {
    let mut cmds: Vec<String> = vec![format!("daemon {}", gen_ifaces(r))];
    cmds.push("quiet 1".to_string());
    // the interface check (default every 5 s) dominates long horizons: mostly slow it down
    let ipint = *r.pick(&[100000u64, 100000, 100000, 3600, 0, 5]);
    if ipint != 5 {
        cmds.push(format!("ipint 0 {}", ipint));
    }
    let mut now = 1_000_000u64;
    let mut chan = 0;
    let nsteps = r.range(2, 7);
    for _ in 0..nsteps {
        match r.below(10) {
            0..=3 => {
                chan += 1;
                cmds.push(format!("browse 0 {} {}", chan, hx(*r.pick(TYPES))));
            }
            4 | 5 => {
                chan += 1;
                let timeout = match r.below(3) {
                    0 => "none".to_string(),
                    _ => format!("some {}", r.pick(&[1u64, 999, 1000, 1001, 2500, 3000, 7000, 60000, 4_000_000])),
                };
                cmds.push(format!("resolve 0 {} {} {}", chan, hx(*r.pick(HOSTS)), timeout));
            }
            6 | 7 => cmds.push(format!("stopbrowse 0 {}", hx(*r.pick(TYPES)))),
            8 => cmds.push(format!("stopresolve 0 {}", hx(*r.pick(HOSTS)))),
            _ => {
                chan += 1;
                cmds.push(format!("browsec 0 {} {}", chan, hx(*r.pick(TYPES))));
            }
        }
        // advance by an amount around the schedule's marks
        let dt = *r.pick(&[0u64, 1, 500, 999, 1000, 1001, 3000, 3700, 7000, 15_000, 100_000, 3_600_000, 10_000_000]);
        now += dt;
        cmds.push(format!("run {}", now));
    }
    // long tail: up to several days
    now += if ipint >= 3600 || ipint == 0 {
        *r.pick(&[10_000u64, 4_000_000, 20_000_000, 90_000_000, 300_000_000])
    } else {
        *r.pick(&[10_000u64, 100_000, 4_000_000])
    };
    cmds.push(format!("run {}", now));
    format!("sim C19 {}", cmds.join(" ; "))
}

pub fn generate(r: &mut Rng, tier: &str, emit: &mut dyn FnMut(String)) {
    let n = if tier == "thorough" { 3000 } else { 300 };
    for _ in 0..n {
        emit(gen_silent(r));
    }
}
