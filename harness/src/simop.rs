//! Daemon-level histories.  One op line = one whole history executed on REAL daemon threads
//! under the simulation seams (sim.rs):
//!
//!   sim <PROP> <cmd> ; <cmd> ; ...
//!
//! Commands (tokens; names/text as hex):
//!   daemon <k> (<ifname> <idx> <ip> <prefix>)*      new daemon (numbered 0,1,.. in order)
//!   link <d1> <if1> <d2> <if2>                      multicast of d1 on if1 is delivered to d2 on if2 and back
//!   now <t>                                         set the virtual clock (ms)
//!   jit <d> <j>                                     jitter used by the next registrations of d
//!   step <d>                                        exactly one loop iteration of d
//!   run <until>                                     event-driven: repeatedly step the daemon with the earliest
//!                                                   requested wake-up <= until at that time, deliver packets
//!                                                   over links, until nothing is due; then now := until
//!   inject <d> <if> <v4> <srcip> <srcport> <hex>    queue a datagram for d (read at its next step)
//!   quiet <0|1>                                     1: iterations without packets/events are only counted (`idle d n`)
//!   drop <n>                                        the next n link deliveries are lost
//!   dup <n>                                         the next n link deliveries are delivered twice
//!   ifaces <d> <k> (<ifname> <idx> <ip> <prefix>)*  new OS interface table of d
//!   browse|browsec <d> <chan> <ty>                  browse / browse_cache, events on channel <chan>
//!   stopbrowse <d> <ty>
//!   hold <d> <chan> | release <d> <chan>            the client stops / resumes reading channel <chan>: a held channel is
//!                                                   not drained (it fills up: capacity 10) unless a loop iteration takes
//!                                                   longer than 50 ms of real time - the daemon is then taken to be blocked
//!                                                   in a send on it, and the client "reads" after all (no hang)
//!   dropchan <d> <chan>                             the client drops the receiver of channel <chan> (the daemon's
//!                                                   sends on it fail from now on; nothing is observed on it any more)
//!   resolve <d> <chan> <host> <none|some ms>        resolve_hostname
//!   stopresolve <d> <host>
//!   register <d> <ty> <inst> <host> <port> <nip> <ip>* <nprops> (<key> <valopt>)* <probe> <addrauto>
//!   unregister <d> <chan> <fullname>
//!   monitor <d> <chan> | shutdown <d> <chan> | status <d> <chan> | metrics <d> <chan>
//!   verify <d> <instance> <ms> | ipint <d> <secs> | accept <d> <0|1> | namelen <d> <n>
//!   enable|disable <d> <ifkind>     ifkind = all | v4 | v6 | name <hex> | addr <ip> | lo4 | lo6 | idx4 <n> | idx6 <n>
//!
//! Observation: items joined by ` ; `:
//!   ret <i> ok|msg|again|shutdown|parseip|panic     result of the API call that is command number i
//!                                                   (`panic`: the calling thread panicked inside the call;
//!                                                    `new-msg`: ServiceInfo::new refused the arguments)
//!   it <d> <now> <wake|none>                        an iteration of d ran at <now>; wake-up requested afterwards
//!   rx <d> <if> <v4> <ip:port> <hex>                datagram queued for d (injected, or delivered over a link);
//!                                                   it is read in d's next iteration
//!   tx <d> <if> <v4> <m|ip:port> <hex>              packet sent in that iteration
//!   ev <d> <chan> <event tokens>                    event received on a client channel during that iteration
//!        started | found <ty> <inst> | removed <ty> <inst> | stopped <ty>
//!        resolved <ty> <none|some sub> <fullname> <host> <port> <n> (<iphex> <k> (<ifname> <ifidx>)*)* <nprops> (<key> <valopt>)*
//!        hstarted | hfound <host> <n> (<iphex> <k> (<ifname> <ifidx>)*)* | hremoved <host> <n> (…)* | htimeout <host> | hstopped <host>
//!        announce <name> <intf> | namechange <orig> <new> <rrtype> <intf> | respond <intf> | ipadd <ip> | ipdel <ip> | error
//!        unreg ok|notfound | status running|shutdown | metrics <n> (<key>=<value>)*
//!   closed <d> <chan>                               the channel's sender side is gone
//!   end <d> ok|panic                                the daemon thread ended
use crate::sim::{Sim, SimIface};
use crate::util::*;
use mdns_sd::{
    DaemonEvent, DaemonStatus, HostnameResolutionEvent, IfKind, Receiver, ScopedIp, ServiceEvent, ServiceInfo,
    UnregisterStatus,
};
use std::collections::HashMap;
use std::net::{IpAddr, SocketAddr};

enum Chan {
    Svc(Receiver<ServiceEvent>),
    Host(Receiver<HostnameResolutionEvent>),
    Mon(Receiver<DaemonEvent>),
    Unreg(Receiver<UnregisterStatus>),
    Status(Receiver<DaemonStatus>),
    Metrics(Receiver<HashMap<String, i64>>),
}

fn scoped_ip_toks(ip: &ScopedIp) -> String {
    match ip {
        ScopedIp::V4(a) => {
            let mut ids: Vec<(String, u32)> = a.interface_ids().iter().map(|i| (i.name.clone(), i.index)).collect();
            ids.sort();
            let mut s = format!("{} {}", hex(&a.addr().octets()), ids.len());
            for (n, i) in ids {
                s.push_str(&format!(" {} {}", hex(n.as_bytes()), i));
            }
            s
        }
        ScopedIp::V6(a) => format!("{} 1 {} {}", hex(&a.addr().octets()), hex(a.scope_id().name.as_bytes()), a.scope_id().index),
        _ => "?".to_string(),
    }
}

fn ips_toks(set: &std::collections::HashSet<ScopedIp>) -> String {
    let mut v: Vec<String> = set.iter().map(scoped_ip_toks).collect();
    v.sort();
    format!("{} {}", v.len(), v.join(" ")).trim_end().to_string()
}

fn svc_event(e: &ServiceEvent) -> String {
    match e {
        // the payload is free text ("<ty> on N interfaces [...]"): not part of any property
        ServiceEvent::SearchStarted(_) => "started".to_string(),
        ServiceEvent::ServiceFound(t, n) => format!("found {} {}", hex(t.as_bytes()), hex(n.as_bytes())),
        ServiceEvent::ServiceResolved(r) => {
            let props: Vec<(Vec<u8>, Option<Vec<u8>>)> = r
                .txt_properties
                .iter()
                .map(|p| (p.key().as_bytes().to_vec(), p.val().map(|v| v.to_vec())))
                .collect();
            format!(
                "resolved {} {} {} {} {} {} {}",
                hex(r.ty_domain.as_bytes()),
                match &r.sub_ty_domain {
                    None => "none".to_string(),
                    Some(s) => format!("some {}", hex(s.as_bytes())),
                },
                hex(r.fullname.as_bytes()),
                hex(r.host.as_bytes()),
                r.port,
                ips_toks(&r.addresses),
                crate::c16::props_toks(&props)
            )
        }
        ServiceEvent::ServiceRemoved(t, n) => format!("removed {} {}", hex(t.as_bytes()), hex(n.as_bytes())),
        ServiceEvent::SearchStopped(s) => format!("stopped {}", hex(s.as_bytes())),
        _ => "other".to_string(),
    }
}

fn host_event(e: &HostnameResolutionEvent) -> String {
    match e {
        HostnameResolutionEvent::SearchStarted(_) => "hstarted".to_string(),
        HostnameResolutionEvent::AddressesFound(h, a) => format!("hfound {} {}", hex(h.as_bytes()), ips_toks(a)),
        HostnameResolutionEvent::AddressesRemoved(h, a) => format!("hremoved {} {}", hex(h.as_bytes()), ips_toks(a)),
        HostnameResolutionEvent::SearchTimeout(h) => format!("htimeout {}", hex(h.as_bytes())),
        HostnameResolutionEvent::SearchStopped(h) => format!("hstopped {}", hex(h.as_bytes())),
        _ => "other".to_string(),
    }
}

fn mon_event(e: &DaemonEvent) -> String {
    match e {
        DaemonEvent::Announce(n, i) => format!("announce {} {}", hex(n.as_bytes()), hex(i.as_bytes())),
        DaemonEvent::Error(_) => "error".to_string(),
        DaemonEvent::IpAdd(ip) => format!("ipadd {}", ip),
        DaemonEvent::IpDel(ip) => format!("ipdel {}", ip),
        DaemonEvent::NameChange(c) => format!(
            "namechange {} {} {} {}",
            hex(c.original.as_bytes()),
            hex(c.new_name.as_bytes()),
            c.rr_type as u16,
            hex(c.intf_name.as_bytes())
        ),
        DaemonEvent::Respond(i) => format!("respond {}", hex(i.as_bytes())),
        _ => "other".to_string(),
    }
}

struct World {
    sim: Sim,
    chans: Vec<(usize, u64, Chan, bool)>, // (daemon, chan id, receiver, closed reported)
    links: Vec<(usize, u32, usize, u32)>,
    ifaces: Vec<Vec<SimIface>>,
    out: Vec<String>,
    drop_n: u64,
    dup_n: u64,
    /// daemons with undelivered input (injected packets or API commands): they run next
    pending_rx: Vec<bool>,
    /// quiet mode: iterations without packets, events or end are only counted (`idle d n`)
    quiet: bool,
    idle: Vec<u64>,
    /// dense polling: `run` additionally steps every daemon at every multiple of this many ms
    dense: u64,
    /// channels the client does not read at the moment
    held: Vec<(usize, u64)>,
}

fn drain(chans: &mut Vec<(usize, u64, Chan, bool)>, out: &mut Vec<String>) {
    drain_except(chans, out, &[]);
}

fn drain_except(chans: &mut Vec<(usize, u64, Chan, bool)>, out: &mut Vec<String>, held: &[(usize, u64)]) {
    for (d, id, ch, closed) in chans.iter_mut() {
        if *closed || held.contains(&(*d, *id)) {
            continue;
        }
        loop {
            macro_rules! pull {
                ($r:expr, $f:expr) => {
                    match $r.try_recv() {
                        Ok(e) => Some(Ok($f(&e))),
                        Err(flume::TryRecvError::Empty) => None,
                        Err(flume::TryRecvError::Disconnected) => Some(Err(())),
                    }
                };
            }
            let item: Option<Result<String, ()>> = match ch {
                Chan::Svc(r) => pull!(r, svc_event),
                Chan::Host(r) => pull!(r, host_event),
                Chan::Mon(r) => pull!(r, mon_event),
                Chan::Unreg(r) => pull!(r, |s: &UnregisterStatus| match s {
                    UnregisterStatus::OK => "unreg ok".to_string(),
                    UnregisterStatus::NotFound => "unreg notfound".to_string(),
                }),
                Chan::Status(r) => pull!(r, |s: &DaemonStatus| match s {
                    DaemonStatus::Running => "status running".to_string(),
                    DaemonStatus::Shutdown => "status shutdown".to_string(),
                    _ => "status other".to_string(),
                }),
                Chan::Metrics(r) => pull!(r, |m: &HashMap<String, i64>| {
                    let mut kv: Vec<String> = m.iter().map(|(k, v)| format!("{}={}", k, v)).collect();
                    kv.sort();
                    format!("metrics {} {}", kv.len(), kv.join(" "))
                }),
            };
            match item {
                None => break,
                Some(Ok(s)) => out.push(format!("ev {} {} {}", d, id, s)),
                Some(Err(())) => {
                    out.push(format!("closed {} {}", d, id));
                    *closed = true;
                    break;
                }
            }
        }
    }
}

impl World {
    fn step(&mut self, d: usize) {
        let now = self.sim.now();
        let mut evs: Vec<String> = Vec::new();
        let so = {
            let chans = &mut self.chans;
            let held = self.held.clone();
            let t0 = std::time::Instant::now();
            self.sim.step(d, &mut || {
                if t0.elapsed() < std::time::Duration::from_millis(50) {
                    drain_except(chans, &mut evs, &held)
                } else {
                    drain(chans, &mut evs)
                }
            })
        };
        self.pending_rx[d] = false;
        let wake = if so.ended.is_some() { None } else { so.wake };
        let _ = self.quiet;
        self.out.push(format!(
            "it {} {} {}",
            d,
            now,
            match wake {
                Some(w) => w.to_string(),
                None => "none".to_string(),
            }
        ));
        for p in &so.tx {
            self.out.push(format!(
                "tx {} {} {} {} {}",
                d,
                p.if_index,
                b(p.v4),
                match p.dest {
                    None => "m".to_string(),
                    Some(a) => a.to_string(),
                },
                hex(&p.bytes)
            ));
        }
        self.out.extend(evs);
        if let Some(p) = so.ended {
            self.out.push(format!("end {} {}", d, if p { "panic" } else { "ok" }));
        }
        // deliver multicast over links
        for p in &so.tx {
            if p.dest.is_some() {
                continue;
            }
            let links: Vec<(usize, u32)> = self
                .links
                .iter()
                .filter_map(|&(a, ia, bb, ib)| {
                    if a == d && ia == p.if_index {
                        Some((bb, ib))
                    } else if bb == d && ib == p.if_index {
                        Some((a, ia))
                    } else {
                        None
                    }
                })
                .collect();
            for (to, to_if) in links {
                if self.sim.ended(to).is_some() {
                    continue;
                }
                if self.drop_n > 0 {
                    self.drop_n -= 1;
                    continue;
                }
                // source address: the sender's address of that family on that interface
                let src_ip = self.ifaces[d]
                    .iter()
                    .find(|i| i.index == p.if_index && i.addr.is_ipv4() == p.v4)
                    .map(|i| i.addr);
                let Some(src_ip) = src_ip else { continue };
                let copies = if self.dup_n > 0 {
                    self.dup_n -= 1;
                    2
                } else {
                    1
                };
                for _ in 0..copies {
                    self.sim.inject(to, to_if, p.v4, SocketAddr::new(src_ip, 5353), &p.bytes);
                    self.out.push(format!(
                        "rx {} {} {} {} {}",
                        to,
                        to_if,
                        b(p.v4),
                        SocketAddr::new(src_ip, 5353),
                        hex(&p.bytes)
                    ));
                }
                self.pending_rx[to] = true;
            }
        }
    }

    /// Event-driven run until `until` (inclusive).
    fn run(&mut self, until: u64) {
        let n = self.ifaces.len();
        let mut guard = 0;
        loop {
            guard += 1;
            if guard > 20000 {
                self.out.push("runaway".to_string());
                break;
            }
            // a daemon with undelivered input runs first, at the current time
            if let Some(d) = (0..n).find(|&d| self.pending_rx[d] && self.sim.ended(d).is_none()) {
                self.step(d);
                continue;
            }
            let mut best: Option<(u64, usize)> = None;
            for d in 0..n {
                if self.sim.ended(d).is_some() {
                    continue;
                }
                if let Some(w) = self.sim.wake(d) {
                    if w <= until && best.map_or(true, |(bw, _)| w < bw) {
                        best = Some((w, d));
                    }
                }
            }
            // dense polling: the next poll instant, if it comes before the earliest wake-up
            if self.dense > 0 {
                let next_poll = (self.sim.now() / self.dense + 1) * self.dense;
                if next_poll <= until && best.map_or(true, |(w, _)| next_poll < w) {
                    self.sim.set_now(next_poll);
                    for d in 0..n {
                        if self.sim.ended(d).is_none() {
                            self.step(d);
                        }
                    }
                    continue;
                }
            }
            match best {
                None => break,
                Some((w, d)) => {
                    if w > self.sim.now() {
                        self.sim.set_now(w);
                    }
                    self.step(d);
                }
            }
        }
        if until > self.sim.now() {
            self.sim.set_now(until);
        }
    }
}

fn read_ifaces(t: &mut Toks) -> Option<Vec<SimIface>> {
    let k = t.nat()? as usize;
    let mut v = vec![];
    for _ in 0..k {
        let name = t.string()?;
        let idx = t.nat()? as u32;
        let ip: IpAddr = t.tok()?.parse().ok()?;
        let prefix = t.nat()? as u8;
        v.push(SimIface { name, index: idx, addr: ip, prefix_len: prefix, up: true });
    }
    Some(v)
}

fn read_ifkind(t: &mut Toks) -> Option<IfKind> {
    Some(match t.tok()? {
        "all" => IfKind::All,
        "v4" => IfKind::IPv4,
        "v6" => IfKind::IPv6,
        "name" => IfKind::Name(t.string()?),
        "addr" => IfKind::Addr(t.tok()?.parse().ok()?),
        "lo4" => IfKind::LoopbackV4,
        "lo6" => IfKind::LoopbackV6,
        "idx4" => IfKind::IndexV4(t.nat()? as u32),
        "idx6" => IfKind::IndexV6(t.nat()? as u32),
        _ => return None,
    })
}

fn err_tok<T>(r: &mdns_sd::Result<T>) -> &'static str {
    match r {
        Ok(_) => "ok",
        Err(mdns_sd::Error::Again) => "again",
        Err(mdns_sd::Error::DaemonShutdown) => "shutdown",
        Err(mdns_sd::Error::Msg(_)) => "msg",
        Err(mdns_sd::Error::ParseIpAddr(_)) => "parseip",
        Err(_) => "err",
    }
}

pub fn exec(_op: &str, t: &mut Toks) -> Option<String> {
    let _prop = t.tok()?;
    let rest: Vec<&str> = std::iter::from_fn(|| t.tok()).collect();
    let script = rest.join(" ");
    let cmds: Vec<String> = script.split(" ; ").map(|s| s.trim().to_string()).filter(|s| !s.is_empty()).collect();
    if _op == "sim2" {
        // the same history under two schedulers: event-driven, and polled every 50 ms
        let c2 = cmds.clone();
        let a = std::panic::catch_unwind(move || run_script(&cmds, 0));
        let b = std::panic::catch_unwind(move || run_script(&c2, 50));
        return Some(match (a, b) {
            (Ok(Some(a)), Ok(Some(b))) => format!("{} ;; {}", a, b),
            (Ok(None), _) | (_, Ok(None)) => return None,
            _ => "harness-panic".to_string(),
        });
    }
    let r = std::panic::catch_unwind(move || run_script(&cmds, 0));
    Some(match r {
        Ok(Some(s)) => s,
        Ok(None) => return None,
        Err(_) => "harness-panic".to_string(),
    })
}

fn run_script(cmds: &[String], dense: u64) -> Option<String> {
    let mut w = World {
        sim: Sim::new(1_000_000),
        chans: vec![],
        links: vec![],
        ifaces: vec![],
        out: vec![],
        held: Vec::new(),
        drop_n: 0,
        dup_n: 0,
        pending_rx: vec![],
        quiet: false,
        idle: vec![],
        dense,
    };
    for (ci, c) in cmds.iter().enumerate() {
        let mut t = Toks::new(c);
        let cmd = t.tok()?;
        macro_rules! ret {
            ($d:expr, $r:expr) => {{
                let r = match std::panic::catch_unwind(std::panic::AssertUnwindSafe(|| $r)) {
                    Ok(r) => r,
                    Err(_) => {
                        // the caller's thread panicked inside the API call
                        w.out.push(format!("ret {} panic", ci));
                        continue;
                    }
                };
                w.out.push(format!("ret {} {}", ci, err_tok(&r)));
                // the command wakes the daemon (signal socket): it runs at the current time
                if r.is_ok() && $d < w.pending_rx.len() {
                    w.pending_rx[$d] = true;
                }
                r.ok()
            }};
        }
        match cmd {
            "daemon" => {
                let ifs = read_ifaces(&mut t)?;
                w.sim.add_daemon(ifs.clone());
                w.ifaces.push(ifs);
                w.pending_rx.push(false);
                w.idle.push(0);
            }
            "link" => {
                let a = t.nat()? as usize;
                let ia = t.nat()? as u32;
                let bb = t.nat()? as usize;
                let ib = t.nat()? as u32;
                w.links.push((a, ia, bb, ib));
            }
            "now" => {
                let x = t.nat()?;
                w.sim.set_now(x);
            }
            "jit" => {
                let d = t.nat()? as usize;
                let j = t.nat()?;
                w.sim.set_jitter(d, j);
            }
            "step" => {
                let d = t.nat()? as usize;
                if d >= w.ifaces.len() {
                    return None;
                }
                w.step(d);
            }
            "run" => {
                let until = t.nat()?;
                w.run(until);
            }
            "inject" => {
                let d = t.nat()? as usize;
                let ifi = t.nat()? as u32;
                let v4 = t.boolean()?;
                let ip: IpAddr = t.tok()?.parse().ok()?;
                let port = t.nat()? as u16;
                let bytes = t.hex()?;
                if d >= w.ifaces.len() {
                    return None;
                }
                w.sim.inject(d, ifi, v4, SocketAddr::new(ip, port), &bytes);
                w.out.push(format!("rx {} {} {} {} {}", d, ifi, b(v4), SocketAddr::new(ip, port), hex(&bytes)));
                w.pending_rx[d] = true;
            }
            "quiet" => w.quiet = t.boolean()?,
            "hold" => {
                let d = t.nat()? as usize;
                let ch = t.nat()?;
                w.held.push((d, ch));
            }
            "release" => {
                let d = t.nat()? as usize;
                let ch = t.nat()?;
                w.held.retain(|x| *x != (d, ch));
                drain(&mut w.chans, &mut w.out);
            }
            "dropchan" => {
                let d = t.nat()? as usize;
                let ch = t.nat()?;
                w.chans.retain(|(cd, cid, _, _)| !(*cd == d && *cid == ch));
            }
            "drop" => w.drop_n = t.nat()?,
            "dup" => w.dup_n = t.nat()?,
            "ifaces" => {
                let d = t.nat()? as usize;
                let ifs = read_ifaces(&mut t)?;
                w.sim.set_ifaces(d, ifs.clone());
                w.ifaces[d] = ifs;
            }
            "browse" | "browsec" => {
                let d = t.nat()? as usize;
                let ch = t.nat()?;
                let ty = t.string()?;
                let r = if cmd == "browse" { w.sim.daemon(d).browse(&ty) } else { w.sim.daemon(d).browse_cache(&ty) };
                if let Some(rx) = ret!(d, r) {
                    w.chans.push((d, ch, Chan::Svc(rx), false));
                }
            }
            "stopbrowse" => {
                let d = t.nat()? as usize;
                let ty = t.string()?;
                ret!(d, w.sim.daemon(d).stop_browse(&ty));
            }
            "resolve" => {
                let d = t.nat()? as usize;
                let ch = t.nat()?;
                let host = t.string()?;
                let timeout = match t.tok()? {
                    "none" => None,
                    "some" => Some(t.nat()?),
                    _ => return None,
                };
                if let Some(rx) = ret!(d, w.sim.daemon(d).resolve_hostname(&host, timeout)) {
                    w.chans.push((d, ch, Chan::Host(rx), false));
                }
            }
            "stopresolve" => {
                let d = t.nat()? as usize;
                let host = t.string()?;
                ret!(d, w.sim.daemon(d).stop_resolve_hostname(&host));
            }
            "register" => {
                let d = t.nat()? as usize;
                let ty = t.string()?;
                let inst = t.string()?;
                let host = t.string()?;
                let port = t.nat()? as u16;
                let nip = t.nat()? as usize;
                let mut ips: Vec<IpAddr> = vec![];
                for _ in 0..nip {
                    ips.push(t.tok()?.parse().ok()?);
                }
                let np = t.nat()? as usize;
                let mut props = vec![];
                for _ in 0..np {
                    let k = t.string()?;
                    let v = t.opt_hex()?;
                    props.push(mdns_sd::verif::info::prop(&k, v.as_deref()));
                }
                let probe = t.boolean()?;
                let auto = t.boolean()?;
                let info = match std::panic::catch_unwind(std::panic::AssertUnwindSafe(|| {
                    ServiceInfo::new(&ty, &inst, &host, &ips[..], port, props)
                })) {
                    Ok(i) => i,
                    Err(_) => {
                        w.out.push(format!("ret {} panic", ci));
                        continue;
                    }
                };
                match info {
                    Err(e) => w.out.push(format!("ret {} new-{}", ci, err_tok::<()>(&Err(e)))),
                    Ok(mut info) => {
                        info.set_requires_probe(probe);
                        if auto {
                            info = info.enable_addr_auto();
                        }
                        ret!(d, w.sim.daemon(d).register(info));
                    }
                }
            }
            "unregister" => {
                let d = t.nat()? as usize;
                let ch = t.nat()?;
                let name = t.string()?;
                if let Some(rx) = ret!(d, w.sim.daemon(d).unregister(&name)) {
                    w.chans.push((d, ch, Chan::Unreg(rx), false));
                }
            }
            "monitor" => {
                let d = t.nat()? as usize;
                let ch = t.nat()?;
                if let Some(rx) = ret!(d, w.sim.daemon(d).monitor()) {
                    w.chans.push((d, ch, Chan::Mon(rx), false));
                }
            }
            "shutdown" => {
                let d = t.nat()? as usize;
                let ch = t.nat()?;
                if let Some(rx) = ret!(d, w.sim.daemon(d).shutdown()) {
                    w.chans.push((d, ch, Chan::Status(rx), false));
                }
            }
            "status" => {
                let d = t.nat()? as usize;
                let ch = t.nat()?;
                if let Some(rx) = ret!(d, w.sim.daemon(d).status()) {
                    w.chans.push((d, ch, Chan::Status(rx), false));
                    // a status() answered locally (daemon gone) is already in the channel
                    drain(&mut w.chans, &mut w.out);
                }
            }
            "metrics" => {
                let d = t.nat()? as usize;
                let ch = t.nat()?;
                if let Some(rx) = ret!(d, w.sim.daemon(d).get_metrics()) {
                    w.chans.push((d, ch, Chan::Metrics(rx), false));
                }
            }
            "verify" => {
                let d = t.nat()? as usize;
                let inst = t.string()?;
                let ms = t.nat()?;
                ret!(d, w.sim.daemon(d).verify(inst, std::time::Duration::from_millis(ms)));
            }
            "ipint" => {
                let d = t.nat()? as usize;
                let s = t.nat()? as u32;
                ret!(d, w.sim.daemon(d).set_ip_check_interval(s));
            }
            "accept" => {
                let d = t.nat()? as usize;
                let a = t.boolean()?;
                ret!(d, w.sim.daemon(d).accept_unsolicited(a));
            }
            "namelen" => {
                let d = t.nat()? as usize;
                let n = t.nat()? as u8;
                ret!(d, w.sim.daemon(d).set_service_name_len_max(n));
            }
            "enable" | "disable" => {
                let d = t.nat()? as usize;
                let k = read_ifkind(&mut t)?;
                if cmd == "enable" {
                    ret!(d, w.sim.daemon(d).enable_interface(k));
                } else {
                    ret!(d, w.sim.daemon(d).disable_interface(k));
                }
            }
            _ => return None,
        }
    }
    // final drain so that late closures are seen
    drain(&mut w.chans, &mut w.out);
    for d in 0..w.idle.len() {
        if w.idle[d] > 0 {
            w.out.push(format!("idle {} {}", d, w.idle[d]));
        }
    }
    Some(w.out.join(" ; "))
}
