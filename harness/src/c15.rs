//! C15: no API argument and no packet can crash a caller or kill the daemon.
//! Histories on real daemon threads: hostile arguments to every public function followed by
//! virtual time for deferred work; hostile and nonsensical packets to a daemon with active
//! browses, resolvers and registrations.  Every history ends with `status` and `metrics`.
use crate::scen::*;
use crate::util::*;
use mdns_sd::verif::parser::{self, MsgDesc};

/// `c15-call <fn> ...`: one call of a function that public entry points go through.
/// `cut-label <utf8>`: the label as `DnsOutPacket::write_utf8` writes it (length byte and
/// bytes), taken from an encoded question `<label>.local.`; the other functions are the
/// decision-logic facade ops of c08.
pub fn exec_call(t: &mut Toks) -> Option<String> {
    let sub = t.tok()?;
    if sub == "cut-label" {
        let s = t.string()?;
        if s.is_empty() {
            return None;
        }
        let mut esc = String::new();
        for c in s.chars() {
            if c == '.' || c == '\\' {
                esc.push('\\');
            }
            esc.push(c);
        }
        let d = MsgDesc { questions: vec![(format!("{esc}.local."), 12)], ..Default::default() };
        return Some(match guarded(move || parser::encode(&d)) {
            None => "panic".to_string(),
            Some(None) => return None,
            Some(Some(p)) => {
                let pk = p.first()?;
                let l = *pk.get(12)? as usize;
                format!("ok {}", hex(pk.get(12..13 + l)?))
            }
        });
    }
    crate::c08::exec(sub, t)
}

/// a valid UTF-8 string of about `n` bytes mixing 1-, 2-, 3- and 4-byte characters
fn utf8_soup(r: &mut Rng, n: usize) -> String {
    let mut s = String::new();
    let wide = r.below(4);
    while s.len() < n {
        let c = match if wide == 0 { 0 } else { r.below(6) } {
            0 | 1 | 2 => *r.pick(&['a', 'Z', '0', '-', ' ', '.', '\\', '(', ')', '_']),
            3 => '\u{e9}',
            4 => '\u{4e16}',
            _ => '\u{1f600}',
        };
        s.push(c);
    }
    s
}

pub fn gen_calls(r: &mut Rng, emit: &mut dyn FnMut(String)) {
    // the label writer: every length around the limit, multi-byte characters astride it
    let n = match r.below(6) {
        0 => r.range(1, 59) as usize,
        1 | 2 | 3 => r.range(60, 70) as usize,
        4 => r.range(250, 260) as usize,
        _ => r.range(71, 400) as usize,
    };
    emit(format!("c15-call cut-label {}", hex(utf8_soup(r, n).as_bytes())));
    // the checks and the renaming functions on hostile strings
    let mut s = match r.below(4) {
        0 => hostile_names(r),
        1 => format!("{}.{}", hostile_label(r), hostile_names(r)),
        2 => format!("{}.local.", hostile_label(r)),
        _ => {
            let n = r.range(0, 300) as usize;
            utf8_soup(r, n)
        }
    };
    if r.chance(1, 4) {
        s.push_str(*r.pick(&[" (4294967295)", "-4294967295", " (", " ()", " (+)", "-", "-+", " (99999999999)", " (4294967294)"]));
        if r.chance(1, 2) {
            s.push_str("._x._udp.local.");
        }
    }
    let h = hex(s.as_bytes());
    let line = match r.below(9) {
        0 => format!("c15-call name-change {h}"),
        1 => format!("c15-call hostname-change {h}"),
        2 => format!("c15-call check-name len {} {h}", r.pick(&[0u64, 1, 15, 16, 255])),
        3 => format!("c15-call check-name suffix {h}"),
        4 => format!("c15-call check-name service {h}"),
        5 => format!("c15-call check-name hostname {h}"),
        6 => format!("c15-call check-name instance {h}"),
        7 => format!("c15-call escaped-labels {h}"),
        _ => format!("c15-call split-sub {h}"),
    };
    emit(line);
}

fn label(n: usize, c: char) -> String {
    std::iter::repeat(c).take(n).collect()
}

/// hostile strings: empty, very long, labels of 63/64/255 bytes, multi-byte UTF-8 at every
/// position, dots and backslashes anywhere, missing or doubled suffixes
pub fn hostile_names(r: &mut Rng) -> String {
    let base = match r.below(22) {
        0 => String::new(),
        1 => ".".to_string(),
        2 => "._tcp.local.".to_string(),
        3 => "._udp.local.".to_string(),
        4 => format!("_{}._tcp.local.", label(63, 'a')),
        5 => format!("_{}._tcp.local.", label(64, 'a')),
        6 => format!("_{}._udp.local.", label(255, 'b')),
        7 => format!("{}.local.", label(63, 'h')),
        8 => format!("{}.local.", label(64, 'h')),
        9 => format!("{}.local.", label(250, 'h')),
        10 => "_\u{e9}\u{e9}._tcp.local.".to_string(),
        11 => "\u{e9}._tcp.local.".to_string(),
        12 => "_a\u{4e16}\u{754c}._udp.local.".to_string(),
        13 => "_a._tcp.local._tcp.local.".to_string(),
        14 => "_a._tcp.local".to_string(),
        15 => "_a\\._tcp.local.".to_string(),
        16 => "_a._tcp.local.\\".to_string(),
        17 => "...._a._tcp.local.".to_string(),
        18 => ".local.".to_string(),
        19 => format!("{}\u{e9}.local.", label(62, 'x')),
        20 => "_A-b._TCP.LOCAL.".to_string(),
        _ => format!("_{}._tcp.local.", label(r.range(1, 20) as usize, 'q')),
    };
    base
}

fn hostile_label(r: &mut Rng) -> String {
    match r.below(12) {
        0 => String::new(),
        1 => label(63, 'i'),
        2 => label(64, 'i'),
        3 => label(255, 'i'),
        4 => format!("{}\u{e9}", label(62, 'i')),
        5 => "a.b.c".to_string(),
        6 => "a\\".to_string(),
        7 => "\\".to_string(),
        8 => format!("{} (4294967295)", label(5, 'n')),
        9 => format!("{}.", label(62, 'd')),
        10 => "\u{4e16}".repeat(21),
        _ => "plain".to_string(),
    }
}

fn hostile_num(r: &mut Rng) -> u64 {
    *r.pick(&[0u64, 1, 2, 255, 65535, u32::MAX as u64, u64::MAX / 2, u64::MAX - 1, u64::MAX])
}

pub fn gen_api(r: &mut Rng) -> String {
    let mut cmds: Vec<String> = vec![format!("daemon {}", ifaces_of(0, r.chance(1, 3)))];
    cmds.push("monitor 0 900".to_string());
    cmds.push("jit 0 0".to_string());
    let mut now = 1_000_000u64;
    let mut chan = 0u64;
    let mut registered: Vec<String> = vec![];
    cmds.push(format!("run {}", now));
    for _ in 0..r.range(3, 9) {
        chan += 1;
        let name = hostile_names(r);
        match r.below(12) {
            0 => cmds.push(format!("browse 0 {} {}", chan, hx(&name))),
            1 => cmds.push(format!("browsec 0 {} {}", chan, hx(&name))),
            2 => cmds.push(format!("stopbrowse 0 {}", hx(&name))),
            3 => {
                let t = if r.chance(1, 2) { "none".to_string() } else { format!("some {}", hostile_num(r)) };
                cmds.push(format!("resolve 0 {} {} {}", chan, hx(&name), t));
            }
            4 => cmds.push(format!("stopresolve 0 {}", hx(&name))),
            5 | 6 => {
                // register with hostile type / instance / host / properties
                let ty = if r.chance(1, 2) { "_ok._udp.local.".to_string() } else { hostile_names(r) };
                let inst = hostile_label(r);
                let host = if r.chance(1, 2) { "okhost.local.".to_string() } else { hostile_names(r) };
                let ip = *r.pick(&["192.168.1.10", "192.168.1.10", "10.1.1.1", "fe80::10"]);
                // TXT properties around the 255-byte limit of one `key=value` string (the `=`
                // counts), empty values, many properties (TXT data beyond 64 kB)
                let props = match r.below(6) {
                    0 => "0".to_string(),
                    1 | 2 => {
                        let kl = *r.pick(&[1usize, 10, 100, 254]);
                        let total = *r.pick(&[253usize, 254, 255, 256, 257]);
                        let vl = total.saturating_sub(kl);
                        format!("1 {} some {}", hx(&label(kl, 'k')), if vl == 0 { "-".to_string() } else { hex(&vec![b'v'; vl]) })
                    }
                    3 => format!("1 {} none", hx(&label(*r.pick(&[254usize, 255, 256]), 'k'))),
                    4 => {
                        let n = *r.pick(&[2usize, 40, 300]);
                        let mut s = format!("{}", n);
                        for i in 0..n {
                            s.push_str(&format!(" {} some {}", hx(&format!("key{}", i)), hex(&vec![b'v'; 240])));
                        }
                        s
                    }
                    _ => format!("1 {} some {}", hx("k"), hex(&vec![b'v'; 253])),
                };
                // the TXT data matter only when the rest of the registration is accepted
                let plain = r.chance(1, 2);
                let (ty, inst, host, ip) = if plain {
                    ("_ok._udp.local.".to_string(), format!("p{}", r.below(100)), "okhost.local.".to_string(), "192.168.1.10")
                } else {
                    (ty, inst, host, ip)
                };
                if ty == "_ok._udp.local." {
                    registered.push(format!("{}.{}", inst.replace('\\', "\\\\").replace('.', "\\."), ty));
                }
                cmds.push(format!(
                    "register 0 {} {} {} {} 1 {} {} {} 0",
                    hx(&ty),
                    hx(&inst),
                    hx(&host),
                    *r.pick(&[0u64, 1, 65535]),
                    ip,
                    props,
                    r.below(2)
                ));
                if ty == "_ok._udp.local." && r.chance(2, 3) {
                    // a conflicting record while the name is being probed
                    now += *r.pick(&[50u64, 100, 300, 600]);
                    cmds.push(format!("run {}", now));
                    let t = registered.last().cloned();
                    cmds.push(inject_conflict(r, t));
                }
            }
            7 if !registered.is_empty() => {
                // conflict while the last registration is still probing
                let t = registered.last().cloned();
                cmds.push(inject_conflict(r, t));
            }
            7 => cmds.push(format!("unregister 0 {} {}", chan, hx(&name))),
            8 => cmds.push(format!("verify 0 {} {}", hx(&name), hostile_num(r))),
            9 => cmds.push(format!("ipint 0 {}", hostile_num(r).min(u32::MAX as u64))),
            10 => cmds.push(format!("namelen 0 {}", *r.pick(&[0u64, 1, 15, 30, 31, 255]))),
            _ => cmds.push(format!("metrics 0 {}", chan)),
        }
        now += *r.pick(&[0u64, 100, 250, 750, 1000, 3000]);
        cmds.push(format!("run {}", now));
    }
    // conflict for a registered long-label name: the rename makes it longer
    if r.chance(1, 2) {
        // while it is still probing (probe = 1) a conflicting SRV makes the daemon rename it
        let target = if !registered.is_empty() && r.chance(3, 4) { Some(r.pick(&registered).clone()) } else { None };
        cmds.push(inject_conflict(r, target));
        now += 2000;
        cmds.push(format!("run {}", now));
    }
    now += *r.pick(&[2000u64, 5000, 20_000]);
    cmds.push(format!("run {}", now));
    cmds.push(format!("status 0 {}", 990));
    cmds.push(format!("metrics 0 {}", 991));
    cmds.push(format!("run {}", now));
    format!("sim C15 {}", cmds.join(" ; "))
}

fn inject_conflict(r: &mut Rng, target: Option<String>) -> String {
    use mdns_sd::verif::parser::{RDataView, RecDesc};
    let name = target.unwrap_or_else(|| format!("{}._ok._udp.local.", label(*r.pick(&[5usize, 59, 60, 63]), 'i')));
    let rec = RecDesc {
        name,
        ty: 33,
        class: 0x8001,
        ttl: 120,
        rdata: RDataView::Srv { priority: 0, weight: 0, port: 1, host: "other.local.".into() },
    };
    format!("inject 0 2 1 192.168.1.77 5353 {}", response(&[rec], &[]))
}

/// raw response packet with wire labels chosen freely (the crate's encoder would escape them)
fn raw_ptr_response(ty_labels: &[&[u8]], inst_labels: &[Vec<u8>]) -> String {
    let mut p: Vec<u8> = vec![0, 0, 0x84, 0, 0, 0, 0, 1, 0, 0, 0, 0];
    for l in ty_labels {
        p.push(l.len() as u8);
        p.extend_from_slice(l);
    }
    p.push(0);
    p.extend_from_slice(&[0, 12, 0, 1, 0, 0, 0x11, 0x94]);
    let mut rd: Vec<u8> = vec![];
    for l in inst_labels {
        rd.push(l.len() as u8);
        rd.extend_from_slice(l);
    }
    rd.extend_from_slice(&[0xC0, 12]);
    p.extend_from_slice(&(rd.len() as u16).to_be_bytes());
    p.extend(rd);
    hex(&p)
}

pub fn gen_packets(r: &mut Rng) -> String {
    let mut cmds: Vec<String> = vec![format!("daemon {}", ifaces_of(0, r.chance(1, 3)))];
    cmds.push("monitor 0 900".to_string());
    cmds.push("jit 0 0".to_string());
    let mut now = 1_000_000u64;
    cmds.push(format!("run {}", now));
    cmds.push(format!("browse 0 1 {}", hx("_http._tcp.local.")));
    cmds.push(format!("resolve 0 2 {} none", hx("srv.local.")));
    cmds.push(format!("register 0 {} {} {} 80 1 192.168.1.10 0 1 0", hx("_http._tcp.local."), hx("mine"), hx("myhost.local.")));
    if r.chance(1, 2) {
        cmds.push("accept 0 1".to_string());
    }
    cmds.push(format!("run {}", now));
    for _ in 0..r.range(4, 14) {
        let src_port = if r.chance(1, 5) { 40000 } else { 5353 };
        let pkt = match r.below(8) {
            0 => hex(&crate::c01::gen_grammar(r)),
            1 => hex(&if r.chance(1, 2) { crate::c01::gen_grammar(r) } else { crate::c01::gen_tail(r) }),
            2 => hex(&crate::c01::gen_valid(r)),
            3 => hex(&if r.chance(1, 4) { crate::c01::gen_pointer_shapes(r) } else { crate::c01::gen_tail(r) }),
            4 => {
                // wire labels that merge / grow when the unescaped name is encoded again:
                // a label ending in a backslash, labels with dots, 63-byte labels
                let l1: Vec<u8> = match r.below(4) {
                    0 => {
                        let mut v = vec![b'a'; 62];
                        v.push(b'\\');
                        v
                    }
                    1 => b"x.y.z".to_vec(),
                    2 => vec![b'm'; 63],
                    _ => b"tail\\".to_vec(),
                };
                let l2: Vec<u8> = match r.below(3) {
                    0 => b"b".to_vec(),
                    1 => vec![b'n'; 63],
                    _ => b"\\".to_vec(),
                };
                raw_ptr_response(&[b"_http", b"_tcp", b"local"], &[l1, l2])
            }
            5 => {
                let n = r.range(0, 60) as usize;
                hex(&r.bytes(n))
            }
            6 => {
                // a query for our own service with odd question names
                let mut p: Vec<u8> = vec![0x12, 0x34, 0, 0, 0, 1, 0, 0, 0, 0, 0, 0];
                for l in [&b"_http"[..], b"_tcp", b"local"] {
                    p.push(l.len() as u8);
                    p.extend_from_slice(l);
                }
                p.push(0);
                p.extend_from_slice(&[0, *r.pick(&[12u8, 255, 33, 1, 47]), 0x80, 1]);
                hex(&p)
            }
            _ => {
                let i = gen_inst(r, 3);
                let t = Ttls { ptr: 10, srv: 10, txt: 10, addr: 10 };
                let recs = recs_of(&i, &t, true);
                response(&recs[..1], &recs[1..])
            }
        };
        cmds.push(format!("inject 0 2 1 192.168.1.66 {} {}", src_port, pkt));
        now += *r.pick(&[0u64, 1, 500, 1000, 1600]);
        cmds.push(format!("run {}", now));
    }
    now += 5000;
    cmds.push(format!("run {}", now));
    cmds.push(format!("status 0 {}", 990));
    cmds.push(format!("metrics 0 {}", 991));
    cmds.push(format!("run {}", now));
    format!("sim C15 {}", cmds.join(" ; "))
}

/// names that become over-long or overflow when a conflict suffix is added
pub fn gen_rename(r: &mut Rng) -> String {
    let mut cmds: Vec<String> = vec![format!("daemon {}", ifaces_of(0, false))];
    cmds.push("monitor 0 900".to_string());
    cmds.push("jit 0 0".to_string());
    let now = 1_000_000u64;
    cmds.push(format!("run {}", now));
    let inst = match r.below(8) {
        0 => "n (4294967295)".to_string(),
        1 => "n (4294967294)".to_string(),
        2 => label(63, 'i'),
        3 => label(60, 'i'),
        4 => format!("{} (9)", label(59, 'i')),
        5 => format!("{}\u{e9}", label(61, 'i')),
        6 => "n (+07)".to_string(),
        _ => "plain".to_string(),
    };
    let host = match r.below(5) {
        0 => "h-4294967295.local.".to_string(),
        1 => format!("{}.local.", label(63, 'h')),
        2 => format!("{}.local.", label(248, 'h')),
        _ => "okhost.local.".to_string(),
    };
    cmds.push(format!("register 0 {} {} {} 80 1 192.168.1.10 0 1 0", hx("_ok._udp.local."), hx(&inst), hx(&host)));
    cmds.push(format!("run {}", now + 100));
    // conflicting SRV for the instance and/or conflicting address for the host
    use mdns_sd::verif::parser::{RDataView, RecDesc};
    let full = format!("{}._ok._udp.local.", inst.replace('\\', "\\\\").replace('.', "\\."));
    let srv = RecDesc { name: full, ty: 33, class: 0x8001, ttl: 120, rdata: RDataView::Srv { priority: 0, weight: 0, port: 9, host: "other.local.".into() } };
    let a = RecDesc { name: host.clone(), ty: 1, class: 0x8001, ttl: 120, rdata: RDataView::Addr { ip: "192.168.1.99".parse().unwrap(), if_name: "x".into(), if_index: 0 } };
    match r.below(3) {
        0 => cmds.push(format!("inject 0 2 1 192.168.1.77 5353 {}", response(&[srv], &[]))),
        1 => cmds.push(format!("inject 0 2 1 192.168.1.77 5353 {}", response(&[a], &[]))),
        _ => cmds.push(format!("inject 0 2 1 192.168.1.77 5353 {}", response(&[srv, a], &[]))),
    }
    cmds.push(format!("run {}", now + 6000));
    cmds.push("status 0 990".to_string());
    cmds.push("metrics 0 991".to_string());
    cmds.push(format!("run {}", now + 6000));
    format!("sim C15 {}", cmds.join(" ; "))
}

/// A competing probe query for a name that is being probed, whose authority section holds only
/// some of the records we propose - a strict prefix in probe order (TXT before SRV; one of two
/// addresses), all equal to ours - or records that differ, or none at all.
pub fn gen_probe_prefix(r: &mut Rng) -> String {
    use mdns_sd::verif::parser::{RDataView, RecDesc};
    let mut cmds: Vec<String> = vec![format!("daemon {}", ifaces_of(0, false))];
    cmds.push("monitor 0 900".to_string());
    cmds.push("ipint 0 100000".to_string());
    cmds.push("jit 0 0".to_string());
    let mut now = 1_000_000u64;
    cmds.push(format!("run {}", now));
    let inst = format!("pp{}", r.below(10));
    let full = format!("{}._ok._udp.local.", inst);
    let host = "pphost.local.";
    cmds.push(format!("register 0 {} {} {} 80 2 192.168.1.10 192.168.1.11 0 1 0", hx("_ok._udp.local."), hx(&inst), hx(host)));
    now += *r.pick(&[1u64, 100, 260, 510, 700]);
    cmds.push(format!("run {}", now));
    let txt = RecDesc { name: full.clone(), ty: 16, class: 0x8001, ttl: 4500, rdata: RDataView::Txt(vec![0]) };
    let srv = RecDesc { name: full.clone(), ty: 33, class: 0x8001, ttl: 120, rdata: RDataView::Srv { priority: 0, weight: 0, port: 80, host: host.to_string() } };
    let a1 = RecDesc { name: host.to_string(), ty: 1, class: 0x8001, ttl: 120, rdata: RDataView::Addr { ip: "192.168.1.10".parse().unwrap(), if_name: "x".into(), if_index: 0 } };
    let a2 = RecDesc { name: host.to_string(), ty: 1, class: 0x8001, ttl: 120, rdata: RDataView::Addr { ip: "192.168.1.11".parse().unwrap(), if_name: "x".into(), if_index: 0 } };
    let (qname, auth): (String, Vec<RecDesc>) = match r.below(8) {
        0 => (full.clone(), vec![txt.clone()]),
        1 => (full.clone(), vec![srv.clone()]),
        2 => (full.clone(), vec![txt.clone(), srv.clone()]),
        3 => (host.to_string(), vec![a1.clone()]),
        4 => (host.to_string(), vec![a2.clone()]),
        5 => (host.to_string(), vec![a1.clone(), a2.clone(), a1.clone()]),
        6 => (full.clone(), vec![a1.clone()]),
        _ => (full.clone(), vec![]),
    };
    let d = MsgDesc { questions: vec![(qname, 255)], authorities: auth, ..Default::default() };
    if let Some(p) = parser::encode(&d).and_then(|v| v.into_iter().next()) {
        cmds.push(format!("inject 0 2 1 192.168.1.77 5353 {}", hex(&p)));
    }
    now += 3000;
    cmds.push(format!("run {}", now));
    cmds.push("status 0 990".to_string());
    cmds.push("metrics 0 991".to_string());
    cmds.push(format!("run {}", now));
    format!("sim C15 {}", cmds.join(" ; "))
}

pub fn generate(r: &mut Rng, tier: &str, emit: &mut dyn FnMut(String)) {
    let n = if tier == "thorough" { 4000 } else { 400 };
    for _ in 0..n * 4 {
        gen_calls(r, emit);
    }
    for i in 0..n {
        // the packet builders go through the crate's own encoder: if that panics on a hostile
        // name (which is what the `cut-label` calls and the corpus report), skip the history
        let line = std::panic::catch_unwind(std::panic::AssertUnwindSafe(|| {
            if i % 8 == 7 {
                gen_probe_prefix(r)
            } else if i % 4 == 0 {
                gen_rename(r)
            } else if i % 2 == 0 {
                gen_api(r)
            } else {
                gen_packets(r)
            }
        }));
        if let Ok(l) = line {
            emit(l);
        }
    }
}
