//! C01: decoding any datagram.  Op:  decode <hex>
//! Observation: `ok <msg view>` | `err` | `panic`  (plus `hang` / `abort` from the watchdog)
//! followed by ` | peak=<bytes> us=<micros> len=<n>`.
use crate::alloc;
use crate::util::*;
use crate::wirefmt::*;
use mdns_sd::verif::parser;

pub fn exec(_op: &str, t: &mut Toks) -> Option<String> {
    let bytes = t.hex()?;
    let len = bytes.len();
    let t0 = std::time::Instant::now();
    let (r, peak) = alloc::measure(|| guarded(move || parser::decode(&bytes, "eth0", 2)));
    let us = t0.elapsed().as_micros();
    let head = match r {
        None => "panic".to_string(),
        Some(None) => "err".to_string(),
        Some(Some(m)) => format!("ok {}", msg_toks(&m)),
    };
    Some(format!("{} | peak={} us={} len={}", head, peak, us, len))
}

// ------------------------------------------------------------------ raw packet grammar

fn push_u16(v: &mut Vec<u8>, x: u16) {
    v.extend_from_slice(&x.to_be_bytes());
}

fn header(id: u16, flags: u16, qd: u16, an: u16, ns: u16, ar: u16) -> Vec<u8> {
    let mut v = vec![];
    for x in [id, flags, qd, an, ns, ar] {
        push_u16(&mut v, x);
    }
    v
}

thread_local! {
    /// clean mode: the grammar generator injects no malformation (the malformed stream is separate)
    static CLEAN: std::cell::Cell<bool> = std::cell::Cell::new(false);
}
fn clean() -> bool {
    CLEAN.with(|c| c.get())
}

const LABELS: &[&[u8]] = &[b"a", b"local", b"_tcp", b"_udp", b"_http", b"host", b"My.Svc", b"x\\y", "caf\u{e9}".as_bytes(), b"_sub"];

/// A name in wire format; may end in a pointer into what has been written so far.
fn gen_name(r: &mut Rng, pkt: &[u8], name_offsets: &[usize]) -> Vec<u8> {
    let mut v = vec![];
    let nlabels = match r.below(10) {
        0 => 0,
        1 if !clean() => r.range(5, 40),
        _ => r.range(1, 4),
    };
    for _ in 0..nlabels {
        let l: Vec<u8> = match r.below(30) {
            0 | 3 => vec![b'z'; 63],
            1 if !clean() => { let n = r.range(1, 8) as usize; r.bytes(n) } // maybe invalid UTF-8
            2 => vec![b'q'; r.range(40, 63) as usize],
            _ => r.pick(LABELS).to_vec(),
        };
        v.push(l.len() as u8);
        v.extend(l);
    }
    match r.below(24) {
        0..=9 => v.push(0),
        10..=19 if !name_offsets.is_empty() => {
            // backward pointer to an earlier name
            let off = *r.pick(name_offsets);
            push_u16(&mut v, 0xC000 | off as u16);
        }
        20 | 21 if !clean() => {
            // pointer anywhere: forward, self, into RDATA, to 0
            let here = pkt.len() + v.len();
            let off = match r.below(5) {
                0 => here,
                1 => here + 2,
                2 => r.below(pkt.len() as u64 + 1) as usize,
                3 => 0,
                _ => here.saturating_sub(r.range(1, 6) as usize),
            };
            push_u16(&mut v, 0xC000 | (off as u16 & 0x3FFF));
        }
        22 if !clean() => v.push(*r.pick(&[0x40u8, 0x80, 0x7F, 0xBF])), // reserved prefixes / over-long label
        _ => v.push(0),
    }
    v
}

fn gen_rdata(r: &mut Rng, ty: u16, pkt: &[u8], name_offsets: &[usize]) -> Vec<u8> {
    match ty {
        1 => r.bytes(4),
        28 => r.bytes(16),
        12 | 5 => gen_name(r, pkt, name_offsets),
        33 => {
            let mut v = r.bytes(6);
            v.extend(gen_name(r, pkt, name_offsets));
            v
        }
        16 => {
            let n = *r.pick(&[0usize, 1, 2, 10, 60, 300]);
            let mut v = vec![];
            while v.len() < n {
                let k = r.range(0, 12) as usize;
                v.push(k as u8);
                v.extend((0..k).map(|_| *r.pick(&[b'a', b'=', b'1', 0xC0, 0x0C, 0x17])));
            }
            v
        }
        13 if clean() => {
            let mut v = vec![];
            for _ in 0..2 {
                let s: &[u8] = *r.pick(&[&b"arm64"[..], b"", b"linux", b"x", b"cpu"]);
                v.push(s.len() as u8);
                v.extend(s);
            }
            v
        }
        47 if clean() => {
            let mut v = gen_name(r, pkt, name_offsets);
            v.push(0);
            let bl = *r.pick(&[1u8, 4, 32, 5, 6]);
            v.push(bl);
            v.extend(r.bytes(bl as usize));
            v
        }
        13 => {
            let mut v = vec![];
            for _ in 0..(*r.pick(&[2u8, 2, 2, 2, 1, 0, 3])) {
                let s: &[u8] = *r.pick(&[&b"arm64"[..], b"", b"linux", b"x", b"cpu", &[0xFF, 0xFE][..]]);
                v.push(s.len() as u8);
                v.extend(s);
            }
            if !clean() && r.chance(1, 10) {
                v.push(r.range(1, 200) as u8); // length byte pointing beyond
            }
            v
        }
        47 => {
            let mut v = gen_name(r, pkt, name_offsets);
            v.push(*r.pick(&[0u8, 0, 0, 0, 0, 0, 0, 1]));
            let bl = *r.pick(&[1u8, 4, 32, 5, 6, 1, 4, 32, 0, 33]);
            v.push(bl);
            let n = *r.pick(&[bl as usize, bl as usize, bl as usize, bl as usize, bl.saturating_sub(1) as usize]);
            v.extend(r.bytes(n));
            v
        }
        _ => { let n = r.range(0, 20) as usize; r.bytes(n) }
    }
}

/// Grammar packet: header with arbitrary counts, questions, records of known and unknown
/// types with RDLENGTH exact / off by one / 0 / 65535, pointer graphs of every kind.
pub fn gen_grammar(r: &mut Rng) -> Vec<u8> {
    let nq = *r.pick(&[0u16, 0, 1, 1, 2, 5]);
    let nrec: Vec<u16> = (0..3).map(|_| *r.pick(&[0u16, 0, 1, 1, 2, 3, 8])).collect();
    let flags = *r.pick(&[0u16, 0x8400, 0x8000, 0x0200, 0x8480]);
    let lie = !clean() && r.chance(1, 12);
    let mut pkt = header(
        r.next() as u16,
        flags,
        if lie { *r.pick(&[0u16, 1, 3, 65535]) } else { nq },
        if lie { *r.pick(&[0u16, 1, 7, 65535]) } else { nrec[0] },
        nrec[1],
        nrec[2],
    );
    let mut offs = vec![];
    for _ in 0..nq {
        offs.push(pkt.len());
        let n = gen_name(r, &pkt, &offs[..offs.len() - 1]);
        pkt.extend(n);
        push_u16(&mut pkt, if clean() { *r.pick(&[1u16, 12, 16, 28, 33, 255, 47, 13, 5]) } else { *r.pick(&[1u16, 12, 16, 28, 33, 255, 47, 13, 5, 12, 255, 2, 0]) });
        push_u16(&mut pkt, *r.pick(&[1u16, 0x8001, 1, 255]));
    }
    for _ in 0..(nrec[0] + nrec[1] + nrec[2]) {
        offs.push(pkt.len());
        let n = gen_name(r, &pkt, &offs[..offs.len() - 1]);
        pkt.extend(n);
        let ty = *r.pick(&[1u16, 12, 16, 28, 33, 47, 13, 5, 255, 2, 41, 65535, 12, 33, 16]);
        push_u16(&mut pkt, ty);
        push_u16(&mut pkt, *r.pick(&[1u16, 0x8001, 0x8001, 3]));
        pkt.extend_from_slice(&(*r.pick(&[0u32, 1, 120, 4500, u32::MAX])).to_be_bytes());
        // names inside RDATA may be pointed to later
        let rd_start = pkt.len() + 2;
        let rd = gen_rdata(r, ty, &pkt, &offs);
        let rdlen = match if clean() { 23 } else { r.below(24) } {
            0 => rd.len().wrapping_sub(1) as u16,
            1 => rd.len() as u16 + 1,
            2 => 0,
            3 => 65535,
            _ => rd.len() as u16,
        };
        push_u16(&mut pkt, rdlen);
        if matches!(ty, 12 | 5 | 47) {
            offs.push(rd_start);
        }
        if ty == 33 {
            offs.push(rd_start + 6);
        }
        if ty == 16 && rd.len() > 2 {
            offs.push(rd_start + 1); // a "name" inside TXT data (cycle material)
        }
        pkt.extend(rd);
    }
    if !clean() && r.chance(1, 16) {
        let n = r.below(pkt.len() as u64 + 1) as usize;
        pkt.truncate(n);
    }
    if !clean() && r.chance(1, 16) {
        let n = r.range(1, 9) as usize;
        pkt.extend(r.bytes(n));
    }
    pkt
}

/// Tail shapes: a well-formed packet whose LAST record (every known type in turn) has an inner length
/// (label, character-string, TXT item, NSEC bitmap length) or its RDLENGTH overstating what the
/// datagram still holds by 1..3 bytes, with 0..2 stray bytes behind it - the reads at the very end of
/// the buffer, where an off-by-a-header-byte bound check turns into an out-of-range slice.
pub fn gen_tail(r: &mut Rng) -> Vec<u8> {
    CLEAN.with(|c| c.set(true));
    let k = *r.pick(&[0u16, 0, 1, 2]);
    let in_answers = r.chance(2, 3);
    let mut pkt = if in_answers { header(0, 0x8400, 0, k + 1, 0, 0) } else { header(0, 0x8400, 0, k, 0, 1) };
    let mut offs = vec![];
    let mut last_rd_start = 0usize;
    let mut last_rd_len = 0usize;
    let last_ty = *r.pick(&[47u16, 47, 47, 13, 13, 16, 16, 33, 12, 5, 1, 28]);
    for i in 0..(k + 1) {
        offs.push(pkt.len());
        let n = gen_name(r, &pkt, &offs[..offs.len() - 1]);
        pkt.extend(n);
        let ty = if i == k { last_ty } else { *r.pick(&[1u16, 12, 16, 28, 33, 47, 13]) };
        push_u16(&mut pkt, ty);
        push_u16(&mut pkt, *r.pick(&[1u16, 0x8001]));
        pkt.extend_from_slice(&120u32.to_be_bytes());
        let rd = gen_rdata(r, ty, &pkt, &offs);
        push_u16(&mut pkt, rd.len() as u16);
        last_rd_start = pkt.len();
        last_rd_len = rd.len();
        if matches!(ty, 12 | 5 | 47) {
            offs.push(last_rd_start);
        }
        pkt.extend(rd);
    }
    CLEAN.with(|c| c.set(false));
    let cut = (r.range(1, 4) as usize).min(last_rd_len);
    let stray = r.below(3) as usize;
    let set_rdlen = |p: &mut Vec<u8>, n: usize| {
        let b = (n as u16).to_be_bytes();
        p[last_rd_start - 2] = b[0];
        p[last_rd_start - 1] = b[1];
    };
    match r.below(5) {
        0 => {
            // inner lengths overstate: RDATA cut short, RDLENGTH says what is there
            pkt.truncate(pkt.len() - cut);
            set_rdlen(&mut pkt, last_rd_len - cut);
        }
        1 => {
            // RDLENGTH overstates: RDATA cut short, RDLENGTH as before
            pkt.truncate(pkt.len() - cut);
        }
        2 => {
            // cut, RDLENGTH says what is there, stray bytes behind the record
            pkt.truncate(pkt.len() - cut);
            set_rdlen(&mut pkt, last_rd_len - cut);
            pkt.extend(r.bytes(stray));
        }
        3 => {
            // cut, RDLENGTH as before, fewer stray bytes than were cut
            pkt.truncate(pkt.len() - cut);
            pkt.extend(r.bytes(stray.min(cut.saturating_sub(1))));
        }
        _ => {
            // the last length byte inside the RDATA raised by 1..3 (NSEC bitmap length, last
            // character-string / TXT item), RDLENGTH exact
            let rd_end = last_rd_start + last_rd_len;
            let pos = match last_ty {
                47 => {
                    // block length byte: bitmap is the tail, its length byte sits before it
                    let mut p = None;
                    for bl in [1usize, 4, 5, 6, 32] {
                        if last_rd_len >= bl + 2 && pkt[rd_end - bl - 1] as usize == bl && pkt[rd_end - bl - 2] == 0 {
                            p = Some(rd_end - bl - 1);
                        }
                    }
                    p
                }
                13 | 16 => {
                    // walk the character strings to the last one
                    let mut i = last_rd_start;
                    let mut lastp = None;
                    while i < rd_end {
                        lastp = Some(i);
                        i += 1 + pkt[i] as usize;
                    }
                    lastp
                }
                _ => None,
            };
            if let Some(p) = pos {
                pkt[p] = pkt[p].saturating_add(cut as u8);
            }
            pkt.extend(r.bytes(stray.min(cut.saturating_sub(1))));
        }
    }
    pkt
}

/// Valid packet built by the crate's own encoder.
pub fn gen_valid(r: &mut Rng) -> Vec<u8> {
    use parser::{MsgDesc, RDataView, RecDesc};
    let names = ["inst._http._tcp.local.", "_http._tcp.local.", "host.local.", "My\\.Svc._x._udp.local.", "b.local."];
    let mut d = MsgDesc { flags: *r.pick(&[0u16, 0x8400]), id: 0, ..Default::default() };
    for _ in 0..r.below(3) {
        d.questions.push((r.pick(&names).to_string(), *r.pick(&[12u16, 255, 1, 33])));
    }
    let mk = |r: &mut Rng| -> RecDesc {
        let name = r.pick(&names).to_string();
        let (ty, rdata) = match r.below(6) {
            0 => (1, RDataView::Addr { ip: "192.168.1.7".parse().unwrap(), if_name: "e".into(), if_index: 1 }),
            1 => (28, RDataView::Addr { ip: "fe80::1".parse().unwrap(), if_name: "e".into(), if_index: 1 }),
            2 => (12, RDataView::Ptr(r.pick(&names).to_string())),
            3 => (33, RDataView::Srv { priority: 0, weight: 0, port: 8080, host: r.pick(&names).to_string() }),
            4 => (12, RDataView::Ptr(name.clone())),
            _ => (16, RDataView::Txt(vec![3, b'a', b'=', b'1'])),
        };
        RecDesc { name, ty, class: *r.pick(&[1u16, 0x8001]), ttl: *r.pick(&[0u32, 1, 120, 4500]), rdata }
    };
    for _ in 0..r.below(4) {
        let x = mk(r);
        d.answers.push((x, 0));
    }
    for _ in 0..r.below(3) {
        let x = mk(r);
        d.authorities.push(x);
    }
    for _ in 0..r.below(4) {
        let x = mk(r);
        d.additionals.push(x);
    }
    parser::encode(&d).and_then(|v| v.into_iter().next()).unwrap_or_default()
}

fn mutate(r: &mut Rng, mut p: Vec<u8>) -> Vec<u8> {
    for _ in 0..r.range(1, 4) {
        if p.is_empty() {
            break;
        }
        let i = r.below(p.len() as u64) as usize;
        match r.below(5) {
            0 => p[i] ^= 1 << r.below(8),
            1 => p[i] = *r.pick(&[0u8, 0xC0, 0x0C, 0xFF, 0x3F, 0x40, 1]),
            2 => {
                p.remove(i);
            }
            3 => p.insert(i, *r.pick(&[0u8, 0xC0, 0x0C, 1, b'a'])),
            _ => {
                let n = r.below(p.len() as u64 + 1) as usize;
                p.truncate(n);
            }
        }
    }
    p
}

/// Pointer structures placed in bytes that are never parsed as a name on their own (header
/// id/flags, TXT RDATA): chains of n pointers (n around the hop limit 127) ending in a real
/// name, in themselves, or in a loop; entered from a later record's owner name.  Also names
/// whose decoded length is exactly around 255.
pub fn gen_pointer_shapes(r: &mut Rng) -> Vec<u8> {
    let shape = r.below(6);
    if shape == 0 {
        // cycle inside the header: id = C0 00 (self) or id = C0 02, flags = C0 00 (two-cycle)
        let (id, flags) = *r.pick(&[(0xC000u16, 0x0000u16), (0xC002, 0xC000), (0xC000, 0x8400), (0xC002, 0xC002)]);
        let mut p = header(id, flags, 1, 0, 0, 0);
        push_u16(&mut p, 0xC000 | *r.pick(&[0u16, 2, 0, 2, 4, 10]));
        p.extend_from_slice(&[0, 12, 0, 1]);
        return p;
    }
    let mut p = header(0, 0x8400, 0, 2, 0, 0);
    // answer 1: root owner, TXT (or unknown type), RDATA = blob
    p.push(0);
    push_u16(&mut p, *r.pick(&[16u16, 16, 2, 1]));
    push_u16(&mut p, 1);
    p.extend_from_slice(&120u32.to_be_bytes());
    let n = *r.pick(&[1usize, 2, 3, 10, 125, 126, 127, 128, 129, 200]);
    let rd_start = p.len() + 2;
    let mut blob: Vec<u8> = vec![];
    // element 0: what the chain ends in
    let end_kind = r.below(4);
    match end_kind {
        0 => blob.extend_from_slice(&[1, b'a', 0]), // a real name
        1 => push_u16(&mut blob, 0xC000 | rd_start as u16), // self pointer
        2 => {
            // two-cycle
            push_u16(&mut blob, 0xC000 | (rd_start + 2) as u16);
            push_u16(&mut blob, 0xC000 | rd_start as u16);
        }
        _ => {
            // label then pointer back to the label (cycle with a label in it)
            blob.extend_from_slice(&[1, b'b']);
            push_u16(&mut blob, 0xC000 | rd_start as u16);
        }
    }
    let mut target = rd_start;
    if shape == 5 {
        // long name instead of a long chain: labels so that the decoded text is 253..257 bytes
        blob.clear();
        let total = *r.pick(&[253usize, 254, 255, 256, 257]);
        let mut left = total;
        while left > 0 {
            let l = (left - 1).min(63).max(1).min(left.saturating_sub(1).max(1));
            if left < 2 {
                break;
            }
            blob.push(l as u8);
            blob.extend(std::iter::repeat(b'n').take(l));
            left -= l + 1;
        }
        blob.push(0);
    } else {
        for _ in 0..n {
            let here = rd_start + blob.len();
            push_u16(&mut blob, 0xC000 | target as u16);
            target = here;
        }
    }
    if p[13] == 0 && p[14] == 1 && blob.len() != 4 {
        // type A needs RDLENGTH 4: switch to TXT
        p[14] = 16;
    }
    push_u16(&mut p, blob.len() as u16);
    p.extend(&blob);
    // answer 2: owner = pointer to the head of the chain, type A
    push_u16(&mut p, 0xC000 | target as u16);
    p.extend_from_slice(&[0, 1, 0, 1, 0, 0, 0, 120, 0, 4, 10, 0, 0, 1]);
    p
}

const ALPHABET: [u8; 7] = [0x00, 0x01, 0x3F, 0x40, 0xC0, 0x0C, b'a'];

fn exhaustive(max_len: usize, emit: &mut dyn FnMut(String)) {
    // every string over ALPHABET up to max_len placed after (a) a query header with one
    // question, (b) a response header with one answer
    let heads = [header(0, 0, 1, 0, 0, 0), header(0, 0x8400, 0, 1, 0, 0)];
    for len in 0..=max_len {
        let total = 7usize.pow(len as u32);
        for code in 0..total {
            let mut c = code;
            let mut tail = Vec::with_capacity(len);
            for _ in 0..len {
                tail.push(ALPHABET[c % 7]);
                c /= 7;
            }
            for h in &heads {
                let mut p = h.clone();
                p.extend(&tail);
                emit(format!("decode {}", hex(&p)));
            }
        }
    }
}

pub fn generate(r: &mut Rng, tier: &str, emit: &mut dyn FnMut(String)) {
    let thorough = tier == "thorough";
    exhaustive(if thorough { 6 } else { 4 }, emit);
    let n = if thorough { 200_000 } else { 20_000 };
    for i in 0..n {
        let p = match i % 10 {
            0 => {
                // uniformly random bytes, length 0..=9000 (mostly short, a share of long ones)
                let len = if i % 200 == 0 { r.range(0, 9000) } else { r.range(0, 80) } as usize;
                r.bytes(len)
            }
            1 | 2 => {
                let v = gen_valid(r);
                mutate(r, v)
            }
            3 => {
                // every truncation point of a valid packet is reached over the run
                let mut v = gen_valid(r);
                let n = r.below(v.len() as u64 + 1) as usize;
                v.truncate(n);
                v
            }
            4 => gen_valid(r),
            5 => {
                let g = gen_grammar(r);
                mutate(r, g)
            }
            6 | 7 => {
                CLEAN.with(|c| c.set(true));
                let g = gen_grammar(r);
                CLEAN.with(|c| c.set(false));
                g
            }
            _ => gen_grammar(r),
        };
        emit(format!("decode {}", hex(&p)));
    }
    for _ in 0..(if thorough { 4000 } else { 400 }) {
        let p = gen_pointer_shapes(r);
        emit(format!("decode {}", hex(&p)));
    }
    for _ in 0..(if thorough { 30_000 } else { 3000 }) {
        let p = gen_tail(r);
        emit(format!("decode {}", hex(&p)));
    }
    // amplification shapes: long pointer chains referenced by many records, 9000 bytes
    for k in 0..(if thorough { 40 } else { 8 }) {
        let mut p = header(0, 0x8400, 0, 700, 0, 0);
        // chain: label then pointer back to previous chain element
        let mut prev: Option<usize> = None;
        let chain_len = 20 + 30 * k;
        for _ in 0..chain_len {
            let here = p.len();
            let l = r.range(1, 63) as usize;
            p.push(l as u8);
            p.extend(std::iter::repeat(b'x').take(l));
            match prev {
                Some(o) => push_u16(&mut p, 0xC000 | o as u16),
                None => p.push(0),
            }
            prev = Some(here);
            if p.len() > 6000 {
                break;
            }
        }
        let head = prev.unwrap();
        while p.len() + 12 <= 9000 {
            push_u16(&mut p, 0xC000 | head as u16);
            p.extend_from_slice(&[0, 2, 0, 1, 0, 0, 0, 9, 0, 0]); // unknown type, RDLENGTH 0
        }
        emit(format!("decode {}", hex(&p)));
    }
}
