//! Deterministic simulation of real `ServiceDaemon` threads (DESIGN 4.2).
//!
//! Every daemon runs its real `Zeroconf::run` loop on its real thread, but sees a virtual
//! clock, a simulated interface table, injected ingress, captured egress, fixed jitter,
//! and is released for exactly one loop iteration at a time (`step`).  The seams live in
//! the crate under feature `verif-hooks` (`mdns_sd::verif::sim`).
//!
//! Rules for callers:
//! * change the clock (`set_now`) only while every daemon is parked (i.e. not inside `step`);
//! * public API calls (`sim.daemon(d).browse(..)`) may be made between steps from the
//!   harness thread; the command is processed in the next granted iteration;
//! * `pump` must drain every event receiver the caller holds (bounded channels would
//!   otherwise block the daemon thread inside an iteration).

use mdns_sd::verif::sim as seam;
use mdns_sd::ServiceDaemon;
use std::net::{IpAddr, Ipv4Addr, Ipv6Addr, SocketAddr};
use std::sync::Arc;
use std::time::{Duration, Instant};

#[derive(Debug, Clone)]
pub struct SimIface {
    pub name: String,
    pub index: u32,
    pub addr: IpAddr,
    pub prefix_len: u8,
    pub up: bool,
}

impl SimIface {
    pub fn new(name: &str, index: u32, addr: &str, prefix_len: u8) -> SimIface {
        SimIface {
            name: name.to_string(),
            index,
            addr: addr.parse().expect("ip address"),
            prefix_len,
            up: true,
        }
    }

    /// The `if_addrs::Interface` the daemon gets to see.
    fn to_interface(&self) -> if_addrs::Interface {
        let addr = match self.addr {
            IpAddr::V4(ip) => {
                let p = self.prefix_len.min(32) as u32;
                let mask = if p == 0 { 0 } else { u32::MAX << (32 - p) };
                if_addrs::IfAddr::V4(if_addrs::Ifv4Addr {
                    ip,
                    netmask: Ipv4Addr::from(mask),
                    prefixlen: self.prefix_len,
                    broadcast: None,
                })
            }
            IpAddr::V6(ip) => {
                let p = self.prefix_len.min(128) as u32;
                let mask = if p == 0 { 0 } else { u128::MAX << (128 - p) };
                if_addrs::IfAddr::V6(if_addrs::Ifv6Addr {
                    ip,
                    netmask: Ipv6Addr::from(mask),
                    prefixlen: self.prefix_len,
                    broadcast: None,
                })
            }
        };
        if_addrs::Interface {
            name: self.name.clone(),
            addr,
            index: Some(self.index),
            oper_status: if self.up {
                if_addrs::IfOperStatus::Up
            } else {
                if_addrs::IfOperStatus::Down
            },
            is_p2p: false,
        }
    }
}

#[derive(Debug, Clone)]
pub struct TxPacket {
    pub daemon: usize,
    pub if_index: u32,
    pub v4: bool,
    /// `None` = multicast
    pub dest: Option<SocketAddr>,
    pub bytes: Vec<u8>,
    pub now: u64,
}

#[derive(Debug)]
pub struct StepOut {
    pub tx: Vec<TxPacket>,
    /// wake-up requested at the gate reached AFTER this iteration
    pub wake: Option<u64>,
    /// `Some(panicked)` if the daemon thread ended during this step
    pub ended: Option<bool>,
}

struct SimDaemon {
    ctx: Arc<seam::SimShared>,
    daemon: ServiceDaemon,
}

pub struct Sim {
    now: u64,
    daemons: Vec<SimDaemon>,
}

/// How long `step` / `add_daemon` wait on the condvar between two `pump` calls.
const PUMP_INTERVAL: Duration = Duration::from_micros(100);
/// A daemon that neither parks nor ends within this (real) time is reported as a hang.
const HANG_TIMEOUT: Duration = Duration::from_secs(20);

impl Sim {
    /// Sets the global virtual clock.
    pub fn new(now: u64) -> Sim {
        mdns_sd::verif::clock::set(Some(now));
        Sim {
            now,
            daemons: Vec::new(),
        }
    }

    pub fn now(&self) -> u64 {
        self.now
    }

    /// Only call while all daemons are parked.
    pub fn set_now(&mut self, t: u64) {
        self.now = t;
        mdns_sd::verif::clock::set(Some(t));
    }

    pub fn set_jitter(&mut self, d: usize, j: u64) {
        self.daemons[d].ctx.lock().jitter = j;
    }

    /// Arms a context and calls `ServiceDaemon::new()`; returns when the daemon is parked
    /// at its first gate.
    pub fn add_daemon(&mut self, ifaces: Vec<SimIface>) -> usize {
        let list = ifaces.iter().map(SimIface::to_interface).collect();
        let ctx = seam::SimShared::new(list, 0);
        seam::arm(ctx.clone());
        let daemon = match ServiceDaemon::new() {
            Ok(d) => d,
            Err(e) => {
                seam::disarm();
                panic!("ServiceDaemon::new failed: {e}");
            }
        };
        let d = self.daemons.len();
        self.daemons.push(SimDaemon { ctx, daemon });
        self.wait_parked(d, &mut || {});
        d
    }

    pub fn daemon(&self, d: usize) -> &ServiceDaemon {
        &self.daemons[d].daemon
    }

    /// The daemon notices at its next `check_ip_changes` (or `enable/disable_interface`).
    pub fn set_ifaces(&mut self, d: usize, ifaces: Vec<SimIface>) {
        self.daemons[d].ctx.lock().ifaces = ifaces.iter().map(SimIface::to_interface).collect();
    }

    /// Queues a datagram as received on `if_index` from `src`; read in the next iteration.
    pub fn inject(&mut self, d: usize, if_index: u32, v4: bool, src: SocketAddr, bytes: &[u8]) {
        let info = mdns_sd::verif::sim::PktInfo {
            if_index: if_index as u64,
            addr_src: src,
            addr_dst: if v4 {
                IpAddr::V4(Ipv4Addr::new(224, 0, 0, 251))
            } else {
                IpAddr::V6(Ipv6Addr::new(0xff02, 0, 0, 0, 0, 0, 0, 0xfb))
            },
        };
        let mut st = self.daemons[d].ctx.lock();
        let q = if v4 { &mut st.rx_v4 } else { &mut st.rx_v6 };
        q.push_back((bytes.to_vec(), info));
    }

    /// Wake-up requested at the gate where `d` is currently parked.
    pub fn wake(&self, d: usize) -> Option<u64> {
        self.daemons[d].ctx.lock().wake
    }

    /// Grants exactly one loop iteration and waits (calling `pump` every ~100µs) until the
    /// daemon is parked again or its thread ended.
    pub fn step(&mut self, d: usize, pump: &mut dyn FnMut()) -> StepOut {
        {
            let ctx = &self.daemons[d].ctx;
            let mut st = ctx.lock();
            if st.ended.is_none() {
                assert!(st.parked && st.grants == 0, "step: daemon {d} is not parked");
                st.grants = 1;
                ctx.cv.notify_all();
            }
        }
        self.wait_parked(d, pump);
        pump();
        let mut st = self.daemons[d].ctx.lock();
        let tx = st
            .tx
            .drain(..)
            .map(|r| TxPacket {
                daemon: d,
                if_index: r.if_index,
                v4: r.v4,
                dest: r.dest,
                bytes: r.bytes,
                now: r.now,
            })
            .collect();
        StepOut {
            tx,
            wake: if st.ended.is_none() { st.wake } else { None },
            ended: st.ended,
        }
    }

    pub fn ended(&self, d: usize) -> Option<bool> {
        self.daemons[d].ctx.lock().ended
    }

    /// Number of loop iterations daemon `d` has started.
    pub fn iterations(&self, d: usize) -> u64 {
        self.daemons[d].ctx.lock().iterations
    }

    fn wait_parked(&self, d: usize, pump: &mut dyn FnMut()) {
        let ctx = &self.daemons[d].ctx;
        let start = Instant::now();
        loop {
            {
                let mut st = ctx.lock();
                if !(st.ended.is_some() || (st.parked && st.grants == 0)) {
                    st = ctx
                        .cv
                        .wait_timeout(st, PUMP_INTERVAL)
                        .unwrap_or_else(|e| e.into_inner())
                        .0;
                }
                if st.ended.is_some() || (st.parked && st.grants == 0) {
                    return;
                }
            }
            pump();
            assert!(
                start.elapsed() < HANG_TIMEOUT,
                "daemon {d} neither parked nor ended within {HANG_TIMEOUT:?} (blocked on a full channel?)"
            );
        }
    }
}

impl Drop for Sim {
    /// Releases the daemons (the gate stops blocking), shuts them down and waits a bounded
    /// time for their threads to end, so that threads and sockets do not leak.
    fn drop(&mut self) {
        for sd in &self.daemons {
            let mut st = sd.ctx.lock();
            st.free_run = true;
            sd.ctx.cv.notify_all();
        }
        let mut pending = Vec::new();
        for sd in &self.daemons {
            if sd.ctx.lock().ended.is_none() {
                pending.push((sd, sd.daemon.shutdown().ok()));
            }
        }
        let deadline = Instant::now() + Duration::from_secs(2);
        for (sd, _resp) in &pending {
            let mut st = sd.ctx.lock();
            while st.ended.is_none() && Instant::now() < deadline {
                st = sd
                    .ctx
                    .cv
                    .wait_timeout(st, Duration::from_millis(5))
                    .unwrap_or_else(|e| e.into_inner())
                    .0;
            }
        }
        mdns_sd::verif::clock::set(None);
    }
}
