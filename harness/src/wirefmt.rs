//! Token rendering of the facade's message views (shared by C01 / C02 / simulation).
use crate::util::*;
use mdns_sd::verif::parser::{MsgView, QView, RDataView, RecView};
use std::net::IpAddr;

pub fn rdata_toks(r: &RDataView) -> String {
    match r {
        RDataView::Addr { ip: IpAddr::V4(a), .. } => format!("a {}", hex(&a.octets())),
        RDataView::Addr { ip: IpAddr::V6(a), .. } => format!("aaaa {}", hex(&a.octets())),
        RDataView::Ptr(s) => format!("ptr {}", hex(s.as_bytes())),
        RDataView::Srv { priority, weight, port, host } => {
            format!("srv {} {} {} {}", priority, weight, port, hex(host.as_bytes()))
        }
        RDataView::Txt(t) => format!("txt {}", hex(t)),
        RDataView::Hinfo { cpu, os } => format!("hinfo {} {}", hex(cpu.as_bytes()), hex(os.as_bytes())),
        RDataView::Nsec { next, bitmap } => format!("nsec {} {}", hex(next.as_bytes()), hex(bitmap)),
    }
}

pub fn rec_toks(r: &RecView) -> String {
    format!("{} {} {} {} {} {}", hex(r.name.as_bytes()), r.ty, r.class, b(r.flush), r.ttl, rdata_toks(&r.rdata))
}

pub fn q_toks(q: &QView) -> String {
    format!("{} {} {} {}", hex(q.name.as_bytes()), q.ty, q.class, b(q.flush))
}

pub fn msg_toks(m: &MsgView) -> String {
    let mut s = format!("{} {} {}", m.id, m.flags, m.questions.len());
    for q in &m.questions {
        s.push(' ');
        s.push_str(&q_toks(q));
    }
    for sec in [&m.answers, &m.authorities, &m.additionals] {
        s.push_str(&format!(" {}", sec.len()));
        for r in sec.iter() {
            s.push(' ');
            s.push_str(&rec_toks(r));
        }
    }
    s
}
