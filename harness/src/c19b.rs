//! C19 (component level): the back-off of a continuing browse / hostname search.
//! The doubling `cmp::min(next_delay * 2, 60 * 60)` sits inside `exec_command_browse` and
//! `exec_command_resolve_hostname` and cannot be called on its own, so the op observes it on a
//! real daemon thread in virtual time (one simulated interface, nobody answers):
//!   backoff <browse|hostname> <namehex> <t0> <k>
//!       -> ok <offset of the first query after the API call> <k-1> <gap ms>*
//!          (gaps between the first k queries for that name; the clock follows the
//!           wake-ups the daemon asks for, so every query is sent when it is due)
use crate::sim::{Sim, SimIface};
use crate::util::*;
use mdns_sd::verif::parser::decode;

const MAX_ITERATIONS: usize = 600;

fn backoff(hostname: bool, name: &str, t0: u64, k: usize) -> Option<(u64, Vec<u64>)> {
    let mut sim = Sim::new(t0);
    let d = sim.add_daemon(vec![SimIface::new("eth0", 2, "192.168.1.10", 24)]);
    // keep the periodic interface check out of the way (it only adds iterations)
    sim.daemon(d).set_ip_check_interval(4_000_000).ok()?;
    sim.step(d, &mut || {});
    let t_call = sim.now();
    // the receivers must stay alive and drained, or the search ends / the daemon blocks
    let (rx_b, rx_h) = if hostname {
        (None, Some(sim.daemon(d).resolve_hostname(name, None).ok()?))
    } else {
        (Some(sim.daemon(d).browse(name).ok()?), None)
    };
    let mut sends: Vec<u64> = Vec::new();
    for _ in 0..MAX_ITERATIONS {
        let out = sim.step(d, &mut || {
            if let Some(rx) = &rx_b {
                while rx.try_recv().is_ok() {}
            }
            if let Some(rx) = &rx_h {
                while rx.try_recv().is_ok() {}
            }
        });
        if out.ended.is_some() {
            return None;
        }
        for p in &out.tx {
            if let Some(m) = decode(&p.bytes, "x", 0) {
                if m.flags & 0x8000 == 0 && m.questions.iter().any(|q| q.name == name) {
                    sends.push(p.now);
                }
            }
        }
        if sends.len() >= k {
            break;
        }
        match out.wake {
            Some(w) if w > sim.now() => sim.set_now(w),
            Some(_) => {}
            None => break,
        }
    }
    sends.truncate(k);
    let first = sends.first()?.checked_sub(t_call)?;
    Some((first, sends.windows(2).map(|w| w[1] - w[0]).collect()))
}

pub fn exec(op: &str, t: &mut Toks) -> Option<String> {
    match op {
        "backoff" => {
            let hostname = match t.tok()? {
                "browse" => false,
                "hostname" => true,
                _ => return None,
            };
            let name = t.string()?;
            let t0 = t.nat()?;
            let k = t.nat()? as usize;
            Some(match guarded(move || backoff(hostname, &name, t0, k)) {
                None => "panic".to_string(),
                Some(None) => "err".to_string(),
                Some(Some((first, gaps))) => {
                    let mut s = format!("ok {} {}", first, gaps.len());
                    for g in gaps {
                        s.push_str(&format!(" {}", g));
                    }
                    s
                }
            })
        }
        _ => None,
    }
}

pub fn generate(_r: &mut Rng, tier: &str, emit: &mut dyn FnMut(String)) {
    // 2^11 s = 2048 s is the last doubled delay below the cap of 3600 s: the 13th query comes
    // 2048 s after the 12th, the 14th and all later ones 3600 s after their predecessor
    let ks: &[usize] = if tier == "thorough" { &[1, 2, 3, 5, 12, 13, 14, 15, 16, 20, 40] } else { &[1, 2, 5, 13, 14, 16] };
    for (i, k) in ks.iter().enumerate() {
        let t0 = 1_000_000 + 977 * i as u64;
        emit(format!("backoff browse {} {} {}", hex(b"_c19._udp.local."), t0, k));
        emit(format!("backoff hostname {} {} {}", hex(b"c19-host.local."), t0 + 1, k));
    }
    emit(format!("backoff browse {} {} 15", hex(b"_other._tcp.local."), 1_700_000_000_000u64));
}
