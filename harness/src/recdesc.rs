//! Record descriptions on op lines (shared by C08 and later properties):
//!   recdesc = <namehex> <ty> <class> <ttl> <rdata>
//! `class` includes the cache-flush bit; `rdata` tokens are exactly those printed by
//! `wirefmt::rdata_toks` (`a <hex4>`, `aaaa <hex16>`, `ptr <hex>`, `srv p w port <hex>`,
//! `txt <hex>`, `hinfo <hex> <hex>`, `nsec <hex> <hex>`).
use crate::util::*;
use mdns_sd::verif::parser::{RDataView, RecDesc, RecView};
use std::net::{IpAddr, Ipv4Addr, Ipv6Addr};

pub fn read_ip(t: &mut Toks) -> Option<IpAddr> {
    ip_of_bytes(&t.hex()?)
}

pub fn ip_of_bytes(b: &[u8]) -> Option<IpAddr> {
    match b.len() {
        4 => Some(IpAddr::V4(Ipv4Addr::new(b[0], b[1], b[2], b[3]))),
        16 => {
            let mut o = [0u8; 16];
            o.copy_from_slice(b);
            Some(IpAddr::V6(Ipv6Addr::from(o)))
        }
        _ => None,
    }
}

pub fn ip_bytes(ip: &IpAddr) -> Vec<u8> {
    match ip {
        IpAddr::V4(a) => a.octets().to_vec(),
        IpAddr::V6(a) => a.octets().to_vec(),
    }
}

fn addr_view(ip: IpAddr) -> RDataView {
    RDataView::Addr { ip, if_name: "verif0".to_string(), if_index: 1 }
}

pub fn read_rdata(t: &mut Toks) -> Option<RDataView> {
    Some(match t.tok()? {
        "a" => match read_ip(t)? {
            ip @ IpAddr::V4(_) => addr_view(ip),
            _ => return None,
        },
        "aaaa" => match read_ip(t)? {
            ip @ IpAddr::V6(_) => addr_view(ip),
            _ => return None,
        },
        "ptr" => RDataView::Ptr(t.string()?),
        "srv" => {
            let priority = u16::try_from(t.nat()?).ok()?;
            let weight = u16::try_from(t.nat()?).ok()?;
            let port = u16::try_from(t.nat()?).ok()?;
            RDataView::Srv { priority, weight, port, host: t.string()? }
        }
        "txt" => RDataView::Txt(t.hex()?),
        "hinfo" => RDataView::Hinfo { cpu: t.string()?, os: t.string()? },
        "nsec" => RDataView::Nsec { next: t.string()?, bitmap: t.hex()? },
        _ => return None,
    })
}

/// The constructors of SRV, TXT and NSEC records fix the record type; a description whose
/// `ty` says otherwise is refused, so that `ty` on the op line is the type the record has.
pub fn read_recdesc(t: &mut Toks) -> Option<RecDesc> {
    let name = t.string()?;
    let ty = u16::try_from(t.nat()?).ok()?;
    let class = u16::try_from(t.nat()?).ok()?;
    let ttl = u32::try_from(t.nat()?).ok()?;
    let rdata = read_rdata(t)?;
    let forced = match rdata {
        RDataView::Srv { .. } => Some(33),
        RDataView::Txt(_) => Some(16),
        RDataView::Nsec { .. } => Some(47),
        _ => None,
    };
    if forced.is_some_and(|f| f != ty) {
        return None;
    }
    Some(RecDesc { name, ty, class, ttl, rdata })
}

pub fn read_recdescs(t: &mut Toks) -> Option<Vec<RecDesc>> {
    let n = t.nat()? as usize;
    (0..n).map(|_| read_recdesc(t)).collect()
}

pub fn recdesc_toks(d: &RecDesc) -> String {
    format!(
        "{} {} {} {} {}",
        hex(d.name.as_bytes()),
        d.ty,
        d.class,
        d.ttl,
        crate::wirefmt::rdata_toks(&d.rdata)
    )
}

pub fn recdescs_toks(ds: &[RecDesc]) -> String {
    let mut s = format!("{}", ds.len());
    for d in ds {
        s.push(' ');
        s.push_str(&recdesc_toks(d));
    }
    s
}

fn rdata_eq(a: &RDataView, b: &RDataView) -> bool {
    match (a, b) {
        (RDataView::Addr { ip: x, .. }, RDataView::Addr { ip: y, .. }) => x == y,
        _ => a == b,
    }
}

/// Does the view show the record described by `d` (name, type, class with flush bit, TTL, RDATA)?
pub fn view_is(v: &RecView, d: &RecDesc) -> bool {
    v.name == d.name
        && v.ty == d.ty
        && v.class == d.class & 0x7FFF
        && v.flush == (d.class & 0x8000 != 0)
        && v.ttl == d.ttl
        && rdata_eq(&v.rdata, &d.rdata)
}
