//! C13: channel protocol and stopping a search, on silent and populated networks.
use crate::scen::*;
use crate::util::*;

pub fn generate(r: &mut Rng, tier: &str, emit: &mut dyn FnMut(String)) {
    let n = if tier == "thorough" { 2000 } else { 200 };
    for i in 0..n {
        if i % 5 == 4 {
            emit(gen_restart(r));
            continue;
        }
        if i % 5 == 2 {
            // a scripted responder: instances that are found but not resolved yet (PTR only,
            // record sets split over packets) while searches are started again, stopped, or
            // served from the cache - the order of events on every channel
            let st = r.range(3, 10);
            let tl = *r.pick(&[3_000u64, 12_000]);
            emit(gen_scripted(r, "C13", st, tl, 3000));
            continue;
        }
        if i % 10 == 1 {
            emit(gen_half_known(r));
            continue;
        }
        if i % 10 == 8 {
            emit(gen_dropped_receiver(r));
            continue;
        }
        if i % 10 == 5 {
            emit(gen_late_timeout(r, "C13"));
            continue;
        }
        if i % 10 == 6 {
            emit(gen_cache_only_daemon(r));
            continue;
        }
        if i % 3 == 0 {
            // silent network: the scheduler model predicts these exactly
            let s = crate::c19::gen_silent(r).replacen("sim C19", "sim C13", 1);
            emit(s);
        } else {
            let mut k = Knobs::base("C13");
            k.responders = 1 + r.below(2);
            k.steps = r.range(4, 10);
            k.p_stop = 3;
            k.p_resolve = 3;
            k.p_shutdown = if r.chance(1, 3) { 1 } else { 0 };
            k.p_loss = if r.chance(1, 4) { 1 } else { 0 };
            k.v6 = r.chance(1, 4);
            k.tail = *r.pick(&[5_000u64, 20_000, 200_000]);
            emit(gen_world(r, &k));
        }
    }
}

/// A search that is stopped (or not) and started again for the same name - in the same or
/// another letter case - before the first search's next retransmission is due, once or
/// several times, on a silent network: the stopped channel must stay silent and only one
/// query schedule may run.
pub fn gen_restart(r: &mut Rng) -> String {
    use crate::c19::{gen_ifaces, HOSTS, TYPES};
    let mut cmds: Vec<String> = vec![format!("daemon {}", gen_ifaces(r))];
    cmds.push("quiet 1".to_string());
    cmds.push("ipint 0 100000".to_string());
    let mut now = 1_000_000u64;
    let host = r.chance(2, 3);
    let name = if host { *r.pick(HOSTS) } else { *r.pick(TYPES) };
    let variant = |r: &mut Rng| -> String {
        if !host {
            return name.to_string();
        }
        match r.below(3) {
            0 => name.to_string(),
            1 => name.to_lowercase(),
            _ => name.to_uppercase().replace(".LOCAL.", ".local."),
        }
    };
    let mut chan = 0;
    let rounds = r.range(2, 4);
    for k in 0..rounds {
        chan += 1;
        let v = variant(r);
        if host {
            let to = if r.chance(2, 3) { "none".to_string() } else { format!("some {}", r.pick(&[1500u64, 3000, 60_000])) };
            cmds.push(format!("resolve 0 {} {} {}", chan, hx(&v), to));
        } else {
            cmds.push(format!("browse 0 {} {}", chan, hx(&v)));
        }
        // the search runs for a while: shorter than its next retransmission, or a few of them
        now += *r.pick(&[0u64, 1, 300, 999, 1000, 1001, 2500, 3500, 7200]);
        cmds.push(format!("run {}", now));
        if k + 1 < rounds || r.chance(1, 2) {
            if r.chance(3, 4) {
                let v = variant(r);
                cmds.push(if host { format!("stopresolve 0 {}", hx(&v)) } else { format!("stopbrowse 0 {}", hx(&v)) });
                now += *r.pick(&[0u64, 1, 200, 600]);
                cmds.push(format!("run {}", now));
            }
        }
    }
    now += *r.pick(&[5_000u64, 20_000, 70_000]);
    cmds.push(format!("run {}", now));
    format!("sim C13 {}", cmds.join(" ; "))
}

/// An instance of which only the PTR is cached when a second search for the type starts (a
/// browse again, or a cache-only browse); the rest of its records arrive afterwards: every
/// channel must hear ServiceFound before ServiceResolved.
pub fn gen_half_known(r: &mut Rng) -> String {
    let mut cmds: Vec<String> = vec![format!("daemon {}", ifaces_of(0, false))];
    cmds.push("ipint 0 100000".to_string());
    let mut now = 1_000_000u64;
    cmds.push(format!("run {}", now));
    let inst = gen_inst(r, 0);
    let t = Ttls { ptr: 4500, srv: 120, txt: 4500, addr: 120 };
    let recs = recs_of(&inst, &t, true);
    if r.chance(3, 4) {
        cmds.push(format!("browse 0 1 {}", hx(&inst.ty)));
    } else {
        cmds.push("accept 0 1".to_string());
    }
    cmds.push(format!("run {}", now));
    cmds.push(format!("inject 0 2 1 192.168.1.50 5353 {}", response(&recs[..1], &[])));
    now += *r.pick(&[0u64, 100, 600, 1700]);
    cmds.push(format!("run {}", now));
    cmds.push(format!("{} 0 2 {}", if r.chance(1, 2) { "browse" } else { "browsec" }, hx(&inst.ty)));
    now += *r.pick(&[0u64, 100, 400]);
    cmds.push(format!("run {}", now));
    match r.below(3) {
        0 => cmds.push(format!("inject 0 2 1 192.168.1.50 5353 {}", response(&recs[1..], &[]))),
        1 => {
            cmds.push(format!("inject 0 2 1 192.168.1.50 5353 {}", response(&recs[1..3], &[])));
            now += 200;
            cmds.push(format!("run {}", now));
            cmds.push(format!("inject 0 2 1 192.168.1.50 5353 {}", response(&recs[3..], &[])));
        }
        _ => {}
    }
    now += 4000;
    cmds.push(format!("run {}", now));
    format!("sim C13 {}", cmds.join(" ; "))
}

/// A daemon that only browses cache-only (no browse, no hostname search, no verify): record
/// sets that arrive unsolicited in pieces - only the PTR, PTR + SRV without address, everything -
/// with short and long TTLs, and seconds of silence in which follow-ups, refresh marks and
/// expiries fall: the daemon must not send a single query ("a cache-only browse never sends a
/// query").  One daemon, injected packets: inside the client model's fragment.
pub fn gen_cache_only_daemon(r: &mut Rng) -> String {
    let mut cmds: Vec<String> = vec![format!("daemon {}", ifaces_of(0, false))];
    cmds.push("ipint 0 100000".to_string());
    let mut now = 1_000_000u64;
    cmds.push(format!("run {}", now));
    let inst = gen_inst(r, 0);
    let short = r.chance(1, 2);
    let t = if short { Ttls { ptr: 10, srv: 10, txt: 10, addr: 10 } } else { Ttls { ptr: 4500, srv: 120, txt: 4500, addr: 120 } };
    let recs = recs_of(&inst, &t, true);
    if r.chance(1, 3) {
        cmds.push("accept 0 1".to_string());
    }
    let early = r.chance(1, 3);
    if early {
        // cached before the search starts (needs accept_unsolicited, or is dropped): the replay
        cmds.push(format!("inject 0 2 1 192.168.1.50 5353 {}", response(&recs[..1], &[])));
        now += *r.pick(&[0u64, 100, 700]);
        cmds.push(format!("run {}", now));
    }
    cmds.push(format!("browsec 0 1 {}", hx(&inst.ty)));
    now += *r.pick(&[0u64, 100, 400]);
    cmds.push(format!("run {}", now));
    // the pieces: what arrives first is not resolvable
    let first = match r.below(3) {
        0 => 1, // PTR only
        1 => 2, // PTR + SRV, no address
        _ => 3, // PTR + SRV + TXT, no address
    };
    cmds.push(format!("inject 0 2 1 192.168.1.50 5353 {}", response(&recs[..first], &[])));
    // long enough for three follow-ups 500 ms apart
    now += *r.pick(&[1_700u64, 2_500, 6_000]);
    cmds.push(format!("run {}", now));
    if r.chance(1, 4) {
        cmds.push(format!("stopbrowse 0 {}", hx(&inst.ty)));
        now += 300;
        cmds.push(format!("run {}", now));
        cmds.push(format!("browsec 0 2 {}", hx(&inst.ty)));
        cmds.push(format!("run {}", now));
        cmds.push(format!("inject 0 2 1 192.168.1.50 5353 {}", response(&recs[..first], &[])));
    }
    if r.chance(2, 3) {
        cmds.push(format!("inject 0 2 1 192.168.1.50 5353 {}", response(&recs[first..], &[])));
    }
    // refresh marks (80-95 %) and the expiry of the short TTLs, or just a tail
    now += if short { *r.pick(&[9_000u64, 13_000]) } else { *r.pick(&[4_000u64, 110_000]) };
    cmds.push(format!("run {}", now));
    format!("sim C13 {}", cmds.join(" ; "))
}

/// The client drops the receiver of a search and stops the search afterwards (or not at all):
/// the daemon's sends on that channel fail.  Stopping must still end the queries and forget the
/// cached records - a later browse of the type starts from an empty cache.  Outside the client
/// model's fragment (`dropchan`): judged by the monitors.
pub fn gen_dropped_receiver(r: &mut Rng) -> String {
    let mut cmds: Vec<String> = vec![format!("daemon {}", ifaces_of(0, false))];
    cmds.push("ipint 0 100000".to_string());
    let mut now = 1_000_000u64;
    cmds.push(format!("run {}", now));
    let inst = gen_inst(r, 0);
    let t = Ttls { ptr: 4500, srv: 120, txt: 4500, addr: 120 };
    let recs = recs_of(&inst, &t, true);
    cmds.push(format!("browse 0 1 {}", hx(&inst.ty)));
    let resolve_too = r.chance(1, 3);
    if resolve_too {
        cmds.push(format!("resolve 0 5 {} none", hx(&inst.host)));
    }
    cmds.push(format!("run {}", now));
    match r.below(3) {
        0 => cmds.push(format!("inject 0 2 1 192.168.1.50 5353 {}", response(&recs, &[]))),
        1 => cmds.push(format!("inject 0 2 1 192.168.1.50 5353 {}", response(&recs[..1], &recs[1..]))),
        _ => {
            cmds.push(format!("inject 0 2 1 192.168.1.50 5353 {}", response(&recs[..1], &[])));
            now += 100;
            cmds.push(format!("run {}", now));
            cmds.push(format!("inject 0 2 1 192.168.1.50 5353 {}", response(&recs[1..], &[])));
        }
    }
    now += *r.pick(&[10u64, 300, 1200]);
    cmds.push(format!("run {}", now));
    // the receiver goes away, before or after the stop (the control)
    let drop_first = r.chance(3, 4);
    if drop_first {
        cmds.push("dropchan 0 1".to_string());
        if r.chance(1, 2) {
            now += *r.pick(&[0u64, 50, 700]);
            cmds.push(format!("run {}", now));
        }
    }
    let stops = r.chance(5, 6);
    if stops {
        cmds.push(format!("stopbrowse 0 {}", hx(&inst.ty)));
        now += *r.pick(&[0u64, 10, 900]);
        cmds.push(format!("run {}", now));
    }
    if !drop_first {
        cmds.push("dropchan 0 1".to_string());
    }
    if resolve_too && r.chance(1, 2) {
        cmds.push("dropchan 0 5".to_string());
        cmds.push(format!("stopresolve 0 {}", hx(&inst.host)));
    }
    now += *r.pick(&[100u64, 2500, 9000]);
    cmds.push(format!("run {}", now));
    if r.chance(1, 3) {
        cmds.push("metrics 0 9".to_string());
    }
    // the type is browsed again: nothing of the stopped search may be left in the cache
    cmds.push(format!("{} 0 2 {}", if r.chance(2, 3) { "browse" } else { "browsec" }, hx(&inst.ty)));
    cmds.push(format!("run {}", now));
    now += *r.pick(&[1500u64, 8000]);
    cmds.push(format!("run {}", now));
    format!("sim C13 {}", cmds.join(" ; "))
}

/// A hostname search with a time-out, and a daemon that is LATE: the clock jumps (`now`) so that
/// one loop iteration finds both a retransmission of the search and its deadline due (or the
/// deadline and then the retransmission in the next iteration).  The search must end once
/// (SearchTimeout, SearchStopped), nothing is asked afterwards and nothing stays queued - the
/// history runs on for hours and reads the metrics at the end.  Inside the client fragment.
pub fn gen_late_timeout(r: &mut Rng, tag: &str) -> String {
    let mut cmds: Vec<String> = vec![format!("daemon {}", ifaces_of(0, false))];
    cmds.push("ipint 0 100000".to_string());
    let t0 = 1_000_000u64;
    let mut now = t0;
    cmds.push(format!("run {}", now));
    let host = *r.pick(&["late.local.", "Late.local.", "slow-host.local."]);
    // retransmissions fall 1 s, 3 s, 7 s, 15 s after the start: deadlines just after / before one
    let timeout = *r.pick(&[1500u64, 1001, 1003, 999, 3500, 3001, 7500, 7002, 2999, 15_500]);
    cmds.push(format!("resolve 0 1 {} some {}", hx(host), timeout));
    cmds.push(format!("run {}", now));
    if r.chance(1, 3) {
        // an answer meanwhile (the search goes on until its deadline)
        let inst = gen_inst(r, 0);
        let t = Ttls { ptr: 4500, srv: 120, txt: 4500, addr: 120 };
        let mut recs = recs_of(&inst, &t, true);
        for rec in recs.iter_mut() {
            if rec.ty == 1 || rec.ty == 28 {
                rec.name = host.to_string();
            }
        }
        cmds.push(format!("inject 0 2 1 192.168.1.50 5353 {}", response(&recs[3..], &[])));
    }
    // run punctually up to the last retransmission before the deadline, or not at all
    let reps = [1000u64, 3000, 7000, 15_000];
    let before: Vec<u64> = reps.iter().cloned().filter(|x| *x < timeout).collect();
    let punctual_until = match r.below(3) {
        0 => 0,
        1 => before.iter().rev().nth(1).cloned().unwrap_or(0),
        _ => before.last().cloned().unwrap_or(0).saturating_sub(*r.pick(&[1u64, 100, 400])),
    };
    if punctual_until > 0 {
        now = t0 + punctual_until;
        cmds.push(format!("run {}", now));
    }
    // the jump: past the pending retransmission AND the deadline (sometimes just the deadline)
    now = t0 + timeout + *r.pick(&[0u64, 1, 2, 50, 600, 5000]);
    cmds.push(format!("now {}", now));
    cmds.push(format!("run {}", now));
    if r.chance(1, 3) {
        cmds.push(format!("stopresolve 0 {}", hx(host)));
    }
    if r.chance(1, 4) {
        cmds.push(format!("resolve 0 2 {} some {}", hx(&host.to_uppercase().replace(".LOCAL.", ".local.")), 2500));
    }
    now += *r.pick(&[3000u64, 20_000]);
    cmds.push(format!("run {}", now));
    // hours later: every queued re-run would have run, every timer would have fired
    now += *r.pick(&[4_000_000u64, 9_000_000]);
    cmds.push(format!("run {}", now));
    cmds.push("metrics 0 9".to_string());
    cmds.push(format!("run {}", now));
    format!("sim {} {}", tag, cmds.join(" ; "))
}
