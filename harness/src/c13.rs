//! C13: channel protocol and stopping a search, on silent and populated networks.
use crate::scen::*;
use crate::util::*;

pub fn generate(r: &mut Rng, tier: &str, emit: &mut dyn FnMut(String)) {
    let n = if tier == "thorough" { 2000 } else { 200 };
    for i in 0..n {
        if i % 3 == 0 {
            // silent network: the scheduler model predicts these exactly
            let s = crate::c19::gen_silent(r).replacen("sim C19", "sim C13", 1);
            emit(s);
        } else {
            let mut k = Knobs::base("C13");
            k.responders = 1 + r.below(2);
            k.steps = r.range(4, 10);
            k.p_stop = 3;
            k.p_resolve = 3;
            k.p_shutdown = if r.chance(1, 3) { 1 } else { 0 };
            k.p_loss = if r.chance(1, 4) { 1 } else { 0 };
            k.v6 = r.chance(1, 4);
            k.tail = *r.pick(&[5_000u64, 20_000, 200_000]);
            emit(gen_world(r, &k));
        }
    }
}
