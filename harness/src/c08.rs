//! C08 (component level): simultaneous-probe comparison and renaming after a conflict.  Ops:
//!   rec-compare <recdesc> <recdesc>            -> ok <c(a,b)> <c(b,a)>          (-1 | 0 | 1)
//!   tiebreak <start> <now> <namehex> <n> <recdesc>* <m> <recdesc>*
//!       my probe (records A, inserted in this order) against the other prober's records B,
//!       which travel as the authority section of a probe query built by the crate's encoder
//!       and decoded by `DnsIncoming::new`; then the same from the other side.
//!       -> ok <n> <idx>* <lost|kept> <start'> <next'> <m> <idx>* <lost|kept> <start'> <next'> | rt=<0|1>
//!       (`idx*` = order of the probe's records after `insert_record`, as indices into the input)
//!   probe-time <start> <now>                   -> ok <next_send> <expired 0|1> <next_send after update>
//!   probe-run <start> <n> <t1> .. <tn>         -> ok <s<t>|e<t>,..|-> <start_time> <next_send>   (due -> expired? end : send)
//!   name-change <hex> | hostname-change <hex>  -> ok <hex> | panic
//!   check-name <len <limit>|suffix|service|hostname|instance> <hex>  -> ok | err | panic
//!   split-sub <hex>                            -> ok <hex> <none | some <hex>>
//!   escaped-labels <hex>                       -> ok <n> <hex>*      (`parse_escaped_name`)
use crate::recdesc::*;
use crate::util::*;
use mdns_sd::verif::parser::{self, MsgDesc, RDataView, RecDesc, RecHandle};
use mdns_sd::verif::{clock, info, logic};

fn order_of(views: &[parser::RecView], descs: &[RecDesc]) -> Option<Vec<usize>> {
    let mut used = vec![false; descs.len()];
    let mut out = Vec::with_capacity(views.len());
    for v in views {
        let i = (0..descs.len()).find(|&i| !used[i] && view_is(v, &descs[i]))?;
        used[i] = true;
        out.push(i);
    }
    Some(out)
}

fn probe_packet(name: &str, recs: Vec<RecDesc>) -> Option<Vec<u8>> {
    let d = MsgDesc {
        flags: 0,
        id: 0,
        questions: vec![(name.to_string(), 255)],
        answers: vec![],
        authorities: recs,
        additionals: vec![],
    };
    parser::encode(&d)?.into_iter().next()
}

struct Side {
    order: Vec<usize>,
    lost: bool,
    start: u64,
    next: u64,
}

fn side_toks(s: &Side) -> String {
    let mut o = format!("{}", s.order.len());
    for i in &s.order {
        o.push_str(&format!(" {}", i));
    }
    format!("{} {} {} {}", o, if s.lost { "lost" } else { "kept" }, s.start, s.next)
}

/// `None` = the op cannot be executed (a record that the facade cannot build, a packet
/// that the crate's own decoder refuses)
fn tiebreak(start: u64, now: u64, name: &str, a: &[RecDesc], b: &[RecDesc]) -> Option<(Side, Side, bool)> {
    let mut pa = info::ProbeHandle::new(start, a)?;
    let mut pb = info::ProbeHandle::new(start, b)?;
    let oa = order_of(&pa.records(), a)?;
    let ob = order_of(&pb.records(), b)?;
    let sorted_a: Vec<RecDesc> = oa.iter().map(|&i| a[i].clone()).collect();
    let sorted_b: Vec<RecDesc> = ob.iter().map(|&i| b[i].clone()).collect();
    let pkt_a = probe_packet(name, sorted_a.clone())?;
    let pkt_b = probe_packet(name, sorted_b.clone())?;
    // does the wire keep what is compared?
    let mut rt = true;
    for (pkt, sent) in [(&pkt_a, &sorted_a), (&pkt_b, &sorted_b)] {
        let m = parser::decode(pkt, "verif0", 1)?;
        rt &= m.authorities.len() == sent.len() && m.authorities.iter().zip(sent.iter()).all(|(v, d)| view_is(v, d));
    }
    clock::set(Some(now));
    let ok_a = pa.tiebreaking(&pkt_b, name);
    let ok_b = pb.tiebreaking(&pkt_a, name);
    clock::set(None);
    if !(ok_a && ok_b) {
        return None;
    }
    let (sa, na) = pa.times();
    let (sb, nb) = pb.times();
    Some((
        Side { order: oa, lost: (sa, na) != (start, start), start: sa, next: na },
        Side { order: ob, lost: (sb, nb) != (start, start), start: sb, next: nb },
        rt,
    ))
}

fn res_tag(r: Option<Result<(), ()>>) -> String {
    match r {
        None => "panic",
        Some(Ok(())) => "ok",
        Some(Err(())) => "err",
    }
    .to_string()
}

pub fn exec(op: &str, t: &mut Toks) -> Option<String> {
    match op {
        "rec-compare" => {
            let a = read_recdesc(t)?;
            let b = read_recdesc(t)?;
            Some(
                match guarded(move || {
                    let ha = RecHandle::new(&a)?;
                    let hb = RecHandle::new(&b)?;
                    Some((ha.compare(&hb), hb.compare(&ha)))
                }) {
                    None => "panic".to_string(),
                    Some(None) => return None,
                    Some(Some((x, y))) => format!("ok {} {}", x, y),
                },
            )
        }
        "tiebreak" => {
            let start = t.nat()?;
            let now = t.nat()?;
            let name = t.string()?;
            let ra = read_recdescs(t)?;
            let rb = read_recdescs(t)?;
            let r = guarded(move || tiebreak(start, now, &name, &ra, &rb));
            clock::set(None);
            Some(match r {
                None => "panic".to_string(),
                Some(None) => return None,
                Some(Some((sa, sb, rt))) => format!("ok {} {} | rt={}", side_toks(&sa), side_toks(&sb), b(rt)),
            })
        }
        "probe-time" => {
            let start = t.nat()?;
            let now = t.nat()?;
            Some(
                match guarded(move || {
                    let mut p = info::ProbeHandle::new(start, &[])?;
                    let first = p.times().1;
                    let expired = p.expired(now);
                    p.update_next_send(now);
                    Some((first, expired, p.times().1))
                }) {
                    None => "panic".to_string(),
                    Some(None) => return None,
                    Some(Some((first, expired, next))) => format!("ok {} {} {}", first, b(expired), next),
                },
            )
        }
        "probe-run" => {
            // the per-probe loop of check_probing over the given instants: due -> expired? end : send
            let start = t.nat()?;
            let n = t.nat()?;
            let mut times = Vec::new();
            for _ in 0..n {
                times.push(t.nat()?);
            }
            Some(
                match guarded(move || {
                    let mut p = info::ProbeHandle::new(start, &[])?;
                    let mut acts: Vec<String> = Vec::new();
                    for now in times {
                        if now >= p.times().1 {
                            if p.expired(now) {
                                acts.push(format!("e{}", now));
                                break;
                            }
                            p.update_next_send(now);
                            acts.push(format!("s{}", now));
                        }
                    }
                    Some((acts, p.times()))
                }) {
                    None => "panic".to_string(),
                    Some(None) => return None,
                    Some(Some((acts, (st, nx)))) => {
                        format!("ok {} {} {}", if acts.is_empty() { "-".to_string() } else { acts.join(",") }, st, nx)
                    }
                },
            )
        }
        "name-change" | "hostname-change" => {
            let s = t.string()?;
            let host = op == "hostname-change";
            Some(
                match guarded(move || if host { logic::hostname_change(&s) } else { logic::name_change(&s) }) {
                    None => "panic".to_string(),
                    Some(n) => format!("ok {}", hex(n.as_bytes())),
                },
            )
        }
        "check-name" => {
            let which = t.tok()?.to_string();
            let limit = if which == "len" { u8::try_from(t.nat()?).ok()? } else { 0 };
            let s = t.string()?;
            if !["len", "suffix", "service", "hostname", "instance"].contains(&which.as_str()) {
                return None;
            }
            Some(res_tag(guarded(move || match which.as_str() {
                "len" => logic::check_service_name_length(&s, limit),
                "suffix" => logic::check_domain_suffix(&s),
                "service" => logic::check_service_name(&s),
                "hostname" => logic::check_hostname(&s),
                _ => {
                    if logic::valid_instance_name(&s) {
                        Ok(())
                    } else {
                        Err(())
                    }
                }
            })))
        }
        "escaped-labels" => {
            let s = t.string()?;
            Some(match guarded(move || parser::parse_escaped_name(&s)) {
                None => "panic".to_string(),
                Some(ls) => {
                    let mut o = format!("ok {}", ls.len());
                    for l in ls {
                        o.push(' ');
                        o.push_str(&hex(l.as_bytes()));
                    }
                    o
                }
            })
        }
        "split-sub" => {
            let s = t.string()?;
            Some(match guarded(move || info::split_sub(&s)) {
                None => "panic".to_string(),
                Some((ty, sub)) => format!("ok {} {}", hex(ty.as_bytes()), opt_hex(&sub.map(String::into_bytes))),
            })
        }
        _ => None,
    }
}

// ------------------------------------------------------------------------ generators

const PROBE: &str = "host-a.local.";

fn rd_a(x: [u8; 4]) -> RDataView {
    RDataView::Addr { ip: std::net::IpAddr::from(x), if_name: "verif0".into(), if_index: 1 }
}
fn rd_aaaa(last: [u8; 2]) -> RDataView {
    let mut o = [0u8; 16];
    o[0] = 0xfe;
    o[1] = 0x80;
    o[14] = last[0];
    o[15] = last[1];
    RDataView::Addr { ip: std::net::IpAddr::from(o), if_name: "verif0".into(), if_index: 1 }
}
fn srv(p: u16, w: u16, port: u16, host: &str) -> RDataView {
    RDataView::Srv { priority: p, weight: w, port, host: host.into() }
}
fn rec(name: &str, ty: u16, class: u16, ttl: u32, rdata: RDataView) -> RecDesc {
    RecDesc { name: name.into(), ty, class, ttl, rdata }
}

/// record alphabet for `rec-compare`: every RDATA kind, neighbouring values, both classes,
/// the cache-flush bit, kinds whose type number belongs to another kind
fn compare_alphabet() -> Vec<RecDesc> {
    let n = PROBE;
    let mut v = vec![
        rec(n, 1, 1, 120, rd_a([10, 0, 0, 1])),
        rec(n, 1, 0x8001, 120, rd_a([10, 0, 0, 1])),
        rec(n, 1, 1, 4500, rd_a([10, 0, 0, 2])),
        rec(n, 1, 1, 120, rd_a([10, 0, 1, 0])),
        rec(n, 1, 1, 120, rd_a([9, 255, 255, 255])),
        rec(n, 1, 1, 120, rd_a([200, 0, 0, 1])),
        rec(n, 1, 3, 120, rd_a([1, 0, 0, 1])),
        rec(n, 28, 1, 120, rd_aaaa([0, 1])),
        rec(n, 28, 1, 120, rd_aaaa([1, 0])),
        rec(n, 28, 0x8001, 120, rd_aaaa([0, 255])),
        // address family and type number disagree (possible through the constructors only)
        rec(n, 1, 1, 120, rd_aaaa([0, 1])),
        rec(n, 28, 1, 120, rd_a([10, 0, 0, 1])),
        rec(n, 12, 1, 4500, RDataView::Ptr("a._x._udp.local.".into())),
        rec(n, 12, 1, 4500, RDataView::Ptr("b._x._udp.local.".into())),
        rec(n, 12, 1, 4500, RDataView::Ptr("a._x._udp.local".into())),
        rec(n, 12, 1, 4500, RDataView::Ptr("A._x._udp.local.".into())),
        rec(n, 12, 1, 4500, RDataView::Ptr("".into())),
        rec(n, 5, 1, 4500, RDataView::Ptr("a._x._udp.local.".into())),
        rec(n, 12, 1, 4500, RDataView::Ptr("caf\u{e9}._x._udp.local.".into())),
        // a pointer record that carries the type number of an address record
        rec(n, 1, 1, 120, RDataView::Ptr("a._x._udp.local.".into())),
        rec(n, 33, 1, 120, srv(0, 0, 80, "h.local.")),
        rec(n, 33, 1, 120, srv(0, 0, 81, "h.local.")),
        rec(n, 33, 1, 120, srv(0, 0, 255, "h.local.")),
        rec(n, 33, 1, 120, srv(0, 0, 256, "h.local.")),
        rec(n, 33, 1, 120, srv(0, 1, 80, "h.local.")),
        rec(n, 33, 1, 120, srv(1, 0, 80, "h.local.")),
        rec(n, 33, 1, 120, srv(256, 0, 80, "a.local.")),
        rec(n, 33, 1, 120, srv(0, 0, 80, "i.local.")),
        rec(n, 33, 1, 120, srv(0, 0, 80, "h-2.local.")),
        rec(n, 33, 1, 120, srv(65535, 65535, 65535, "h.local.")),
        rec(n, 33, 0x8001, 120, srv(0, 0, 80, "h.local.")),
        rec(n, 16, 1, 4500, RDataView::Txt(vec![0])),
        rec(n, 16, 1, 4500, RDataView::Txt(vec![])),
        rec(n, 16, 1, 4500, RDataView::Txt(vec![1, b'a'])),
        rec(n, 16, 1, 4500, RDataView::Txt(vec![1, b'b'])),
        rec(n, 16, 1, 4500, RDataView::Txt(vec![1, b'a', 0])),
        rec(n, 16, 1, 4500, RDataView::Txt(vec![255])),
        rec(n, 13, 1, 120, RDataView::Hinfo { cpu: "arm".into(), os: "linux".into() }),
        rec(n, 13, 1, 120, RDataView::Hinfo { cpu: "arm".into(), os: "linuy".into() }),
        rec(n, 13, 1, 120, RDataView::Hinfo { cpu: "arn".into(), os: "a".into() }),
        rec(n, 13, 1, 120, RDataView::Hinfo { cpu: "".into(), os: "".into() }),
        rec(n, 47, 1, 120, RDataView::Nsec { next: PROBE.into(), bitmap: vec![0x40] }),
        rec(n, 47, 1, 120, RDataView::Nsec { next: PROBE.into(), bitmap: vec![0x40, 0, 0, 8] }),
        rec(n, 47, 1, 120, RDataView::Nsec { next: "host-b.local.".into(), bitmap: vec![0] }),
        // a host-info record carrying the type number of a pointer
        rec(n, 12, 1, 120, RDataView::Hinfo { cpu: "arm".into(), os: "linux".into() }),
    ];
    // the owner name is not part of the comparison
    v.push(rec("other.local.", 1, 1, 120, rd_a([10, 0, 0, 1])));
    v
}

/// small alphabet for the exhaustive tiebreak pairs: two addresses, v6, two SRV, TXT, other class
fn tiebreak_alphabet() -> Vec<RecDesc> {
    let n = PROBE;
    vec![
        rec(n, 1, 0x8001, 120, rd_a([10, 0, 0, 1])),
        rec(n, 1, 0x8001, 120, rd_a([10, 0, 0, 2])),
        rec(n, 28, 0x8001, 120, rd_aaaa([0, 1])),
        rec(n, 33, 0x8001, 120, srv(0, 0, 80, "host-a.local.")),
        rec(n, 33, 0x8001, 120, srv(0, 0, 81, "host-a.local.")),
        rec(n, 16, 0x8001, 4500, RDataView::Txt(vec![1, b'a'])),
        rec(n, 1, 3, 120, rd_a([10, 0, 0, 1])),
    ]
}

fn small_lists(alpha: &[RecDesc], max_len: usize) -> Vec<Vec<RecDesc>> {
    let mut out: Vec<Vec<RecDesc>> = vec![vec![]];
    let mut frontier: Vec<Vec<RecDesc>> = vec![vec![]];
    for _ in 0..max_len {
        let mut next = vec![];
        for l in &frontier {
            for r in alpha {
                let mut l2 = l.clone();
                l2.push(r.clone());
                next.push(l2);
            }
        }
        out.extend(next.iter().cloned());
        frontier = next;
    }
    out
}

fn tiebreak_line(start: u64, now: u64, name: &str, a: &[RecDesc], b: &[RecDesc]) -> String {
    format!("tiebreak {} {} {} {} {}", start, now, hex(name.as_bytes()), recdescs_toks(a), recdescs_toks(b))
}

fn gen_random_rec(r: &mut Rng) -> RecDesc {
    let name = if r.chance(5, 6) { PROBE } else { *r.pick(&["host-b.local.", "HOST-A.local.", "x.host-a.local."]) };
    let class = *r.pick(&[1u16, 0x8001, 0x8001, 0x8001, 3, 0x8003, 0x80ff]);
    let ttl = *r.pick(&[120u32, 4500, 1, 0x7fffffff]);
    let host = *r.pick(&["host-a.local.", "host-b.local.", "Host-A.local.", "h.local."]);
    match r.below(7) {
        0 | 1 => rec(name, 1, class, ttl, rd_a([10, 0, r.below(2) as u8, r.below(3) as u8])),
        2 => rec(name, 28, class, ttl, rd_aaaa([r.below(2) as u8, r.below(3) as u8])),
        3 | 4 => rec(
            name,
            33,
            class,
            ttl,
            srv(*r.pick(&[0, 1, 256]), *r.pick(&[0, 1, 255]), *r.pick(&[80, 81, 255, 256, 65535]), host),
        ),
        5 => {
            let n = r.below(3) as usize;
            let mut t = vec![];
            for _ in 0..n {
                t.push(2);
                t.push(*r.pick(&[b'a', b'b']));
                t.push(b'=');
            }
            if t.is_empty() {
                t.push(0);
            }
            rec(name, 16, class, ttl, RDataView::Txt(t))
        }
        _ => rec(name, *r.pick(&[12u16, 5]), class, ttl, RDataView::Ptr(host.to_string())),
    }
}

const FIRST_LABELS: &[&str] = &[
    "foo", "x", "", "My Service", "a b (c)", "foo (bar)", "foo ( 2)", "foo (2) ", "foo (2)x", "foo(2)", "foo  (2)",
    "caf\u{e9}", "\u{65e5}\u{672c}", "foo (\u{0662})", "a\\.b", "a\\\\", "a\\\\\\.b", "\\.", "x\\", "a (1) (2", "(", " (", " ()",
    "foo-bar", "foo-", "-", "-5", "foo--2", "a-b-c", "foo-2x", "foo- 2", "foo_2", "h\\.x-1",
];

const NUMS: &[&str] = &[
    "0", "1", "2", "8", "9", "10", "99", "100", "007", "+3", "-3", "++3", "+", "", " 2", "2 ", "1e3", "0x10", "4294967294",
    "4294967295", "4294967296", "+4294967295", "004294967295", "99999999999999999999", "\u{0663}", "2)", "(2",
];

const RESTS: &[&str] = &["._x._udp.local.", ".local.", "", ".", "._sub._x._tcp.local.", ".b.c.d.e.f.g.h.local."];

fn long_label(n: usize, tail: &str) -> String {
    let mut s = "L".repeat(n.saturating_sub(tail.len()));
    s.push_str(tail);
    s
}

fn gen_names(r: &mut Rng, emit: &mut dyn FnMut(String)) {
    let mut names: Vec<String> = vec![];
    // every first label alone and with every number as "(N)" / "-N" suffix, one tail each
    for (i, f) in FIRST_LABELS.iter().enumerate() {
        names.push(format!("{}{}", f, RESTS[i % RESTS.len()]));
        for (k, n) in NUMS.iter().enumerate() {
            let rest = RESTS[(i + k) % RESTS.len()];
            names.push(format!("{} ({}){}", f, n, rest));
            names.push(format!("{}-{}{}", f, n, rest));
        }
    }
    // label lengths around 63 (4 and 2 bytes are added; "(9)" -> "(10)" adds one)
    for n in [55usize, 58, 59, 60, 61, 62, 63, 64, 65] {
        for tail in ["", " (2)", " (9)", " (99)", "-2", "-9", "-99", " (4294967294)", "-4294967294"] {
            for rest in ["._x._udp.local.", ".local."] {
                names.push(format!("{}{}", long_label(n, tail), rest));
            }
        }
    }
    // total lengths around 255
    for total in [249usize, 250, 251, 252, 253, 254, 255, 256] {
        for rest in ["._x._udp.local.", ".local."] {
            // first label of 40 bytes, then 50-byte labels up to the wanted total
            let mut s = "f".repeat(40);
            while s.len() + 1 + 50 + rest.len() <= total {
                s.push('.');
                s.push_str(&"m".repeat(50));
            }
            let fill = total.saturating_sub(s.len() + 1 + rest.len());
            if fill > 0 {
                s.push('.');
                s.push_str(&"z".repeat(fill));
            }
            s.push_str(rest);
            names.push(s);
        }
    }
    for n in &names {
        emit(format!("name-change {}", hex(n.as_bytes())));
        emit(format!("hostname-change {}", hex(n.as_bytes())));
        emit(format!("escaped-labels {}", hex(n.as_bytes())));
    }
    for n in ["", ".", "..", "a..b", "\\", "\\.", "\\\\", "a\\b.c", "a\\.b\\\\.c\\x.d\\", ".a", "a.\\"] {
        emit(format!("escaped-labels {}", hex(n.as_bytes())));
    }
    // renaming repeatedly counts up
    for start in ["dup._x._udp.local.", "dup (8)._x._udp.local.", "dup (98).local.", "my-host.local.", "my-host-8.local."] {
        let mut a = start.to_string();
        let mut h = start.to_string();
        for _ in 0..4 {
            emit(format!("name-change {}", hex(a.as_bytes())));
            emit(format!("hostname-change {}", hex(h.as_bytes())));
            a = guarded(|| logic::name_change(&a)).unwrap_or_default();
            h = guarded(|| logic::hostname_change(&h)).unwrap_or_default();
        }
    }
    // random compositions
    for _ in 0..600 {
        let f = *r.pick(FIRST_LABELS);
        let n = *r.pick(NUMS);
        let rest = *r.pick(RESTS);
        let s = match r.below(6) {
            0 => format!("{} ({}){}", f, n, rest),
            1 => format!("{}-{}{}", f, n, rest),
            2 => format!("{} ({}) ({}){}", f, r.pick(NUMS), n, rest),
            3 => format!("{}-{}-{}{}", f, r.pick(NUMS), n, rest),
            4 => format!("{} ({})-{}{}", f, n, r.pick(NUMS), rest),
            _ => format!("{}-{} ({}){}", f, r.pick(NUMS), n, rest),
        };
        emit(format!("{} {}", if r.chance(1, 2) { "name-change" } else { "hostname-change" }, hex(s.as_bytes())));
    }
}

fn gen_checks(r: &mut Rng, emit: &mut dyn FnMut(String)) {
    let mut v: Vec<String> = vec![];
    for dom in ["._tcp.local.", "._udp.local.", "._tcp.local", "._TCP.local.", ".local.", "._sctp.local.", ""] {
        for svc in [
            "_x", "_", "x", "", "_http", "_a-b", "_a--b", "_-a", "_a-", "_1", "_1a", "_123", "__", "_\u{e9}a", "\u{e9}x", "_a.b",
            "_my-svc1", "_-", "_a-1",
        ] {
            for inst in ["", "inst.", "my.inst.", "a.b.c.", "._sub."] {
                v.push(format!("{}{}{}", inst, svc, dom));
            }
        }
    }
    for n in [0usize, 1, 12, 13, 14, 15, 16, 17, 27, 28, 29] {
        v.push(format!("_{}._tcp.local.", "s".repeat(n)));
    }
    for s in &v {
        for which in ["suffix", "service", "instance", "hostname"] {
            emit(format!("check-name {} {}", which, hex(s.as_bytes())));
        }
        let limit = *r.pick(&[0u8, 1, 14, 15, 16, 255]);
        emit(format!("check-name len {} {}", limit, hex(s.as_bytes())));
        emit(format!("check-name len 15 {}", hex(s.as_bytes())));
        emit(format!("split-sub {}", hex(s.as_bytes())));
    }
    for h in [
        ".local.", "local.", "a.local.", "a.local", "a.LOCAL.", "a.b.local.", "", ".", "x.local..", "\u{e9}.local.", "a._sub.b._sub.c",
        "_p._sub._x._udp.local.", "._sub.", "a._sub.", "._sub.x", "x._sub",
    ] {
        emit(format!("check-name hostname {}", hex(h.as_bytes())));
        emit(format!("check-name instance {}", hex(h.as_bytes())));
        emit(format!("split-sub {}", hex(h.as_bytes())));
    }
    for n in [246usize, 247, 248, 249, 250, 254, 255, 256, 300] {
        // total length n including ".local."
        let h = format!("{}.local.", "h".repeat(n - 7));
        emit(format!("check-name hostname {}", hex(h.as_bytes())));
    }
    for dots in 0..8 {
        let s = "a.".repeat(dots);
        emit(format!("check-name instance {}", hex(s.as_bytes())));
        emit(format!("check-name instance {}", hex(format!("{}b", s).as_bytes())));
    }
}

pub fn generate(r: &mut Rng, tier: &str, emit: &mut dyn FnMut(String)) {
    let thorough = tier == "thorough";
    // 1. comparison: all pairs of the record alphabet
    let alpha = compare_alphabet();
    for a in &alpha {
        for b in &alpha {
            emit(format!("rec-compare {} {}", recdesc_toks(a), recdesc_toks(b)));
        }
    }
    // 2. tiebreak: all pairs of record lists of length <= 2 (quick) / 3 (thorough, alphabet of 5)
    let talpha = tiebreak_alphabet();
    let lists = if thorough { small_lists(&talpha[..5], 3) } else { small_lists(&talpha, 2) };
    for a in &lists {
        for b in &lists {
            emit(tiebreak_line(1000, 1100, PROBE, a, b));
        }
    }
    // 3. tiebreak: random larger sets, foreign owner names, probe not started, clock corners
    let n = if thorough { 20000 } else { 2500 };
    for _ in 0..n {
        let la = r.below(5) as usize;
        let lb = r.below(5) as usize;
        let a: Vec<RecDesc> = (0..la).map(|_| gen_random_rec(r)).collect();
        let mut b: Vec<RecDesc> = if r.chance(1, 4) {
            // the same data, maybe in another order, maybe one record changed
            let mut b = a.clone();
            if b.len() > 1 && r.chance(1, 2) {
                let i = r.below(b.len() as u64) as usize;
                let x = b.remove(i);
                b.push(x);
            }
            if !b.is_empty() && r.chance(1, 2) {
                let i = r.below(b.len() as u64) as usize;
                b[i] = gen_random_rec(r);
            }
            b
        } else {
            (0..lb).map(|_| gen_random_rec(r)).collect()
        };
        if r.chance(1, 8) {
            b.truncate(la.saturating_sub(1));
        }
        let (start, now) = match r.below(12) {
            0 => (1000, 1000),
            1 => (1000, 999),
            2 => (1000, 1001),
            3 => (0, 1),
            4 => (0, 0),
            _ => (1000, 1000 + r.range(1, 749)),
        };
        let name = if r.chance(9, 10) { PROBE } else { *r.pick(&["host-b.local.", "HOST-A.local."]) };
        emit(tiebreak_line(start, now, name, &a, &b));
    }
    // 4. probe timing
    for start in [0u64, 1, 1000, 1_700_000_000_000] {
        for d in [0u64, 1, 249, 250, 251, 499, 500, 749, 750, 751, 1000] {
            emit(format!("probe-time {} {}", start, start + d));
        }
        emit(format!("probe-time {} {}", start, start.saturating_sub(1)));
    }
    // 4b. the send / end loop of a probe over instants: timely, late, in bursts, random
    for start in [0u64, 1000, 1_700_000_000_000] {
        let runs: Vec<Vec<u64>> = vec![
            vec![0, 250, 500, 750],
            vec![0, 100, 250, 300, 500, 749, 750, 1000],
            vec![800, 1050, 1300, 1550],
            vec![800, 801, 802, 803, 1050, 1300, 1550, 1551],
            vec![0, 1000, 1250, 1500],
            vec![0, 250, 1500, 1600, 1750],
            vec![749, 750, 751],
            vec![5000],
            vec![5000, 5250, 5500, 5750, 6000],
            vec![0, 250, 500],
            vec![0, 249, 498, 747, 996, 1245],
        ];
        for run in runs {
            let toks: Vec<String> = run.iter().map(|d| (start + d).to_string()).collect();
            emit(format!("probe-run {} {} {}", start, toks.len(), toks.join(" ")));
        }
        for _ in 0..40 {
            let n = r.range(1, 9);
            let mut tcur = start + r.range(0, 1200);
            let mut toks = Vec::new();
            for _ in 0..n {
                toks.push(tcur.to_string());
                tcur += *r.pick(&[0u64, 1, 100, 249, 250, 251, 400, 750, 900]);
            }
            emit(format!("probe-run {} {} {}", start, toks.len(), toks.join(" ")));
        }
    }
    // 5. renaming and the name checks
    gen_names(r, emit);
    gen_checks(r, emit);
}

/// Daemon-level histories (`sim C08`): two or three daemons on one loss-free link register the
/// same instance and host name with different data at every relative offset of a dense grid
/// (simultaneous .. seconds apart) under all probe jitters; every daemon has a monitor channel.
pub fn gen_duel(r: &mut Rng) -> String {
    use crate::scen::hx;
    let nd = if r.chance(1, 4) { 3 } else { 2 };
    let mut cmds: Vec<String> = vec![];
    for d in 0..nd {
        cmds.push(format!("daemon 1 {} 2 192.168.1.{} 24", hx("eth0"), 10 + 10 * d));
    }
    for a in 0..nd {
        for b in (a + 1)..nd {
            cmds.push(format!("link {} 2 {} 2", a, b));
        }
    }
    for d in 0..nd {
        cmds.push(format!("ipint {} 100000", d));
        cmds.push(format!("monitor {} {}", d, 900 + d));
    }
    let t0 = 1_000_000u64;
    cmds.push(format!("run {}", t0));
    let inst = *r.pick(&["dup", "dup", "Web Server", "dup (2)", "x (9)", "MiXed"]);
    let host = *r.pick(&["duphost.local.", "duphost.local.", "h-2.local.", "Host-A.local."]);
    let ty = *r.pick(&["_http._tcp.local.", "_x._udp.local."]);
    let mut now = t0;
    // offsets around the probe steps (0, 250, 500, 750) and the announcements (+1 s), and later
    let grid: &[u64] = &[0, 1, 50, 125, 249, 250, 251, 375, 499, 500, 501, 625, 749, 750, 751, 900, 1000, 1250, 1749, 1750, 1751, 2500, 4000];
    for d in 0..nd {
        if d > 0 {
            now += *r.pick(grid);
            cmds.push(format!("run {}", now));
        }
        cmds.push(format!("jit {} {}", d, r.below(250)));
        // same names, different address and port; host case may differ
        let h = if r.chance(1, 5) { host.to_uppercase().replace(".LOCAL.", ".local.") } else { host.to_string() };
        cmds.push(format!(
            "register {} {} {} {} {} 1 192.168.1.{} 1 {} some {} 1 0",
            d,
            hx(ty),
            hx(inst),
            hx(&h),
            8000 + d,
            10 + 10 * d,
            hx("who"),
            hex(format!("d{}", d).as_bytes())
        ));
    }
    now += *r.pick(&[12_000u64, 20_000]);
    cmds.push(format!("run {}", now));
    format!("sim C08 {}", cmds.join(" ; "))
}

pub fn generate_daemon(r: &mut Rng, tier: &str, emit: &mut dyn FnMut(String)) {
    let n = if tier == "thorough" { 3000 } else { 300 };
    for k in 0..n {
        if k % 4 == 3 {
            // one daemon against an injected claimant: a conflicting response while probing
            // (instance or host; the claimant's address inside or outside our subnets), then
            // questions on the old and the new names
            emit(crate::c07::gen_renamed_asked(r, "C08"));
        } else {
            emit(gen_duel(r));
        }
    }
}
