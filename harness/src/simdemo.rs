//! `vharness simdemo`: drives real daemon threads in virtual time and asserts what the
//! simulation seams are supposed to guarantee (probe/announce timing, discovery between two
//! daemons over a simulated link, goodbye on shutdown).

use crate::sim::{Sim, SimIface, StepOut, TxPacket};
use mdns_sd::verif::parser::{decode, MsgView, RDataView, RecView};
use mdns_sd::{ServiceEvent, ServiceInfo};
use std::net::SocketAddr;
use std::time::Instant;

const T0: u64 = 1_000_000;
const TY: &str = "_demo._udp.local.";
const FULLNAME: &str = "inst._demo._udp.local.";

macro_rules! check {
    ($cond:expr, $($msg:tt)*) => {
        if !$cond {
            return Err(format!("CHECK FAILED: {} ({})", format!($($msg)*), stringify!($cond)));
        }
    };
}

fn ty_name(ty: u16) -> String {
    match ty {
        1 => "A".into(),
        12 => "PTR".into(),
        16 => "TXT".into(),
        28 => "AAAA".into(),
        33 => "SRV".into(),
        47 => "NSEC".into(),
        255 => "ANY".into(),
        t => format!("TYPE{t}"),
    }
}

fn rec(r: &RecView) -> String {
    let data = match &r.rdata {
        RDataView::Addr { ip, .. } => ip.to_string(),
        RDataView::Ptr(alias) => alias.clone(),
        RDataView::Srv { port, host, .. } => format!("{host}:{port}"),
        RDataView::Txt(t) => format!("{}B", t.len()),
        RDataView::Hinfo { .. } => "hinfo".into(),
        RDataView::Nsec { .. } => "nsec".into(),
    };
    format!("{} {} ttl={} {}", r.name, ty_name(r.ty), r.ttl, data)
}

fn recs(tag: &str, v: &[RecView]) -> String {
    if v.is_empty() {
        return String::new();
    }
    format!(" {tag}[{}]", v.iter().map(rec).collect::<Vec<_>>().join("; "))
}

fn summary(m: &MsgView) -> String {
    let kind = if m.flags & 0x8000 == 0 { "QUERY(QR=0)" } else { "RESPONSE(QR=1)" };
    let qs = if m.questions.is_empty() {
        String::new()
    } else {
        let l: Vec<String> =
            m.questions.iter().map(|q| format!("{} {}", q.name, ty_name(q.ty))).collect();
        format!(" q[{}]", l.join("; "))
    };
    format!(
        "{kind}{qs}{}{}{}",
        recs("an", &m.answers),
        recs("ns", &m.authorities),
        recs("ar", &m.additionals)
    )
}

fn show(names: &[&str], p: &TxPacket) -> Option<MsgView> {
    let m = decode(&p.bytes, "x", 0);
    let dest = match p.dest {
        None => "mcast".to_string(),
        Some(d) => d.to_string(),
    };
    println!(
        "  t={:>8} (+{:>5}) {} TX if={} {} -> {:<5} {:>3}B  {}",
        p.now,
        p.now - T0,
        names[p.daemon],
        p.if_index,
        if p.v4 { "v4" } else { "v6" },
        dest,
        p.bytes.len(),
        m.as_ref().map(summary).unwrap_or_else(|| "<undecodable>".into())
    );
    m
}

/// TTLs as they are on the wire.  (`decode` is the crate's `DnsIncoming::new`, which turns a
/// TTL of 0 in a response into 1, so a goodbye cannot be recognised from the decoded view.)
fn wire_ttls(b: &[u8]) -> Option<Vec<u32>> {
    fn skip_name(b: &[u8], mut o: usize) -> Option<usize> {
        loop {
            let l = *b.get(o)? as usize;
            if l & 0xC0 == 0xC0 {
                return Some(o + 2);
            }
            o += 1 + l;
            if l == 0 {
                return Some(o);
            }
        }
    }
    let u16at = |o: usize| Some(u16::from_be_bytes([*b.get(o)?, *b.get(o + 1)?]) as usize);
    let (qd, rrs) = (u16at(4)?, u16at(6)? + u16at(8)? + u16at(10)?);
    let mut o = 12;
    for _ in 0..qd {
        o = skip_name(b, o)? + 4;
    }
    let mut ttls = Vec::new();
    for _ in 0..rrs {
        o = skip_name(b, o)?;
        ttls.push(u32::from_be_bytes(b.get(o + 4..o + 8)?.try_into().ok()?));
        o += 10 + u16at(o + 8)?;
    }
    Some(ttls)
}

fn is_query(m: &MsgView) -> bool {
    m.flags & 0x8000 == 0
}

fn has_types(v: &[RecView], tys: &[u16]) -> bool {
    tys.iter().all(|t| v.iter().any(|r| r.ty == *t))
}

/// Steps daemon `d`, moving the clock to each requested wake-up, until the next wake-up
/// would be after `until` (or there is none).  Prints and collects what it sends.
fn run_until(
    sim: &mut Sim,
    d: usize,
    names: &[&str],
    pump: &mut dyn FnMut(),
    until: u64,
) -> Result<Vec<TxPacket>, String> {
    let mut sent = Vec::new();
    for _ in 0..500 {
        let out = sim.step(d, pump);
        for p in &out.tx {
            show(names, p);
        }
        sent.extend(out.tx);
        check!(out.ended.is_none(), "daemon {} still running", names[d]);
        match out.wake {
            Some(w) if w <= sim.now() => {}
            Some(w) if w <= until => sim.set_now(w),
            _ => return Ok(sent),
        }
    }
    Err("CHECK FAILED: run_until did not settle within 500 iterations".into())
}

pub fn run() -> Result<(), String> {
    let real_start = Instant::now();
    let names = ["A", "B", "C"];
    let mut sim = Sim::new(T0);
    let mut all_tx: Vec<TxPacket> = Vec::new();

    // ------------------------------------------------------------------ (a)
    println!("== (a) daemon A: register, probe x3, announce x2 (virtual time, jitter 100) ==");
    let a = sim.add_daemon(vec![
        SimIface::new("eth0", 2, "192.168.1.10", 24),
        SimIface::new("eth1", 3, "10.0.0.5", 8),
    ]);
    sim.set_jitter(a, 100);
    println!("  t={T0} A parked at first gate, requested wake-up {:?}", sim.wake(a));

    let info = ServiceInfo::new(TY, "inst", "hosta.local.", "192.168.1.10", 5000, None)
        .map_err(|e| format!("ServiceInfo::new: {e}"))?;
    check!(info.requires_probe(), "default ServiceInfo requires probing");
    sim.daemon(a).register(info).map_err(|e| format!("register: {e}"))?;
    println!("  t={T0} API A register {FULLNAME} host hosta.local. 192.168.1.10:5000");

    let mut probes: Vec<u64> = Vec::new();
    let mut announces: Vec<u64> = Vec::new();
    let mut iters = 0;
    while announces.len() < 2 {
        iters += 1;
        check!(iters < 200, "A announces twice within 200 iterations");
        let out = sim.step(a, &mut || {});
        check!(out.ended.is_none(), "A still running");
        for p in &out.tx {
            let m = show(&names, p).ok_or("A sent an undecodable packet")?;
            check!(p.if_index == 2 && p.v4 && p.dest.is_none(), "A sends v4 multicast on if 2 only");
            check!(p.now == sim.now(), "egress is stamped with the virtual time");
            if is_query(&m) {
                check!(!m.authorities.is_empty(), "a probe carries authority records");
                probes.push(p.now);
            } else {
                check!(has_types(&m.answers, &[12, 33, 16, 1]), "announcement has PTR/SRV/TXT/A");
                announces.push(p.now);
            }
        }
        all_tx.extend(out.tx);
        match out.wake {
            Some(w) if w > sim.now() && announces.len() < 2 => sim.set_now(w),
            Some(_) => {}
            None => check!(announces.len() >= 2, "A has a timer pending until it has announced"),
        }
    }
    let rel = |v: &[u64]| v.iter().map(|t| format!("+{}", t - T0)).collect::<Vec<_>>().join(", ");
    println!("  probe times    : {:?}  ({})", probes, rel(&probes));
    println!("  announce times : {:?}  ({})", announces, rel(&announces));
    println!("  loop iterations of A so far: {}", sim.iterations(a));
    check!(probes.len() == 3, "exactly three probes");
    check!(probes[0] == T0 + 100, "first probe at now0 + jitter");
    check!(probes[1] - probes[0] == 250 && probes[2] - probes[1] == 250, "probes 250 ms apart");
    check!(announces[0] == probes[2] + 250, "announcement 250 ms after the last probe");
    check!(announces[1] == announces[0] + 1000, "second announcement one second later");

    // ------------------------------------------------------------------ (b)
    println!("== (b) daemon B browses {TY}; A and B share the link on if 2 ==");
    let b = sim.add_daemon(vec![SimIface::new("eth0", 2, "192.168.1.20", 24)]);
    sim.set_jitter(b, 100);
    let src: [SocketAddr; 2] =
        ["192.168.1.10:5353".parse().unwrap(), "192.168.1.20:5353".parse().unwrap()];
    let browse_rx = sim.daemon(b).browse(TY).map_err(|e| format!("browse: {e}"))?;
    let t_browse = sim.now();
    println!("  t={t_browse} (+{}) API B browse {TY}", t_browse - T0);

    let mut events: Vec<(u64, ServiceEvent)> = Vec::new();
    let mut resolved = false;
    let mut rounds = 0;
    while !resolved {
        rounds += 1;
        check!(rounds < 200, "B resolves the service within 200 rounds");
        let mut delivered = 0;
        for d in [a, b] {
            let now = sim.now();
            let out: StepOut = sim.step(d, &mut || {
                while let Ok(ev) = browse_rx.try_recv() {
                    events.push((now, ev));
                }
            });
            check!(out.ended.is_none(), "daemon {} still running", names[d]);
            for p in &out.tx {
                show(&names, p);
                if p.dest.is_none() && p.if_index == 2 {
                    let peer = if d == a { b } else { a };
                    sim.inject(peer, 2, p.v4, src[d], &p.bytes);
                    delivered += 1;
                }
            }
            all_tx.extend(out.tx);
        }
        resolved = events.iter().any(|(_, ev)| matches!(ev, ServiceEvent::ServiceResolved(_)));
        if resolved || delivered > 0 {
            continue; // packets in flight: let the receivers run before time moves
        }
        // Quiescent: move the clock to the earliest requested wake-up.
        let next = [a, b].iter().filter_map(|d| sim.wake(*d)).min();
        match next {
            Some(w) if w > sim.now() => sim.set_now(w),
            Some(_) => {}
            None => return Err("CHECK FAILED: no timer pending but B has not resolved".into()),
        }
    }
    let mut kinds = Vec::new();
    for (t, ev) in &events {
        match ev {
            ServiceEvent::SearchStarted(s) => {
                println!("  t={t:>8} (+{:>5}) B EV SearchStarted({s})", t - T0);
                kinds.push("SearchStarted");
            }
            ServiceEvent::ServiceFound(ty, full) => {
                println!("  t={t:>8} (+{:>5}) B EV ServiceFound({ty}, {full})", t - T0);
                check!(full == FULLNAME, "found the registered instance");
                kinds.push("ServiceFound");
            }
            ServiceEvent::ServiceResolved(r) => {
                let addrs: Vec<String> = r.addresses.iter().map(|a| a.to_string()).collect();
                println!(
                    "  t={t:>8} (+{:>5}) B EV ServiceResolved({} host={} port={} addrs={:?})",
                    t - T0,
                    r.fullname,
                    r.host,
                    r.port,
                    addrs
                );
                check!(r.fullname == FULLNAME && r.host == "hosta.local." && r.port == 5000, "resolved data");
                check!(
                    r.addresses.iter().any(|a| a.to_ip_addr() == "192.168.1.10".parse::<std::net::IpAddr>().unwrap()),
                    "resolved address 192.168.1.10"
                );
                kinds.push("ServiceResolved");
            }
            other => println!("  t={t:>8} (+{:>5}) B EV {other:?}", t - T0),
        }
    }
    check!(
        kinds.starts_with(&["SearchStarted", "ServiceFound", "ServiceResolved"]),
        "B's channel gets SearchStarted, ServiceFound, ServiceResolved in this order (got {kinds:?})"
    );
    println!("  virtual time elapsed since browse: {} ms", sim.now() - t_browse);

    // ------------------------------------------------------------------ (c)
    println!("== (c) shutdown of A: goodbye packets ==");
    let resp = sim.daemon(a).shutdown().map_err(|e| format!("shutdown: {e}"))?;
    println!("  t={} (+{}) API A shutdown", sim.now(), sim.now() - T0);
    let mut goodbyes = 0;
    let mut steps = 0;
    let ended = loop {
        steps += 1;
        check!(steps < 20, "A ends within 20 iterations after shutdown");
        let out = sim.step(a, &mut || {});
        for p in &out.tx {
            if let Some(m) = show(&names, p) {
                let ttls = wire_ttls(&p.bytes).ok_or("cannot walk the packet")?;
                println!("      TTLs on the wire: {ttls:?} (the decoded view above shows 0 as 1)");
                if !is_query(&m) && !ttls.is_empty() && ttls.iter().all(|t| *t == 0) {
                    check!(has_types(&m.answers, &[12, 33, 16, 1]), "goodbye covers PTR/SRV/TXT/A");
                    goodbyes += 1;
                }
            }
        }
        all_tx.extend(out.tx);
        if let Some(panicked) = out.ended {
            break panicked;
        }
    };
    println!(
        "  A thread ended after {steps} iteration(s): panicked={ended}, status reply {:?}, goodbye packets: {goodbyes}",
        resp.try_recv().ok()
    );
    check!(!ended, "A ended without panic");
    check!(sim.ended(a) == Some(false), "ended(A) == Some(false)");
    check!(goodbyes >= 1, "at least one goodbye packet (all TTL 0)");
    check!(
        all_tx.iter().all(|p| p.daemon != a || p.if_index == 2),
        "A never sent on if 3 (10.0.0.5/8 cannot carry 192.168.1.10)"
    );

    // ------------------------------------------------------------------ (d)
    println!("== (d) seam self-test on daemon C: IPv6 egress, legacy unicast, interface changes ==");
    let v4if = |ip: &str| SimIface::new("eth0", 2, ip, 24);
    let v6if = |up: bool| SimIface { up, ..SimIface::new("eth0", 2, "fe80::30", 64) };
    let c = sim.add_daemon(vec![v4if("192.168.1.30"), v6if(true)]);
    let mon = sim.daemon(c).monitor().map_err(|e| format!("monitor: {e}"))?;
    let mon_events: std::cell::RefCell<Vec<String>> = Default::default();
    let mut pump = || {
        while let Ok(ev) = mon.try_recv() {
            mon_events.borrow_mut().push(format!("{ev:?}"));
        }
    };
    let info = ServiceInfo::new("_demo2._udp.local.", "inst2", "hostc.local.", (), 6000, None)
        .map_err(|e| format!("ServiceInfo::new: {e}"))?
        .enable_addr_auto();
    sim.daemon(c).register(info).map_err(|e| format!("register: {e}"))?;
    let t_c = sim.now();
    println!("  t={t_c} (+{}) API C register inst2._demo2._udp.local. (addr_auto), jitter 0", t_c - T0);
    let sent = run_until(&mut sim, c, &names, &mut pump, t_c + 2000)?;
    check!(sent.iter().all(|p| p.if_index == 2 && p.dest.is_none()), "C multicasts on if 2");
    let fams = |v4: bool| sent.iter().filter(|p| p.v4 == v4).map(|p| p.now - t_c).collect::<Vec<_>>();
    println!("  v4 send times relative to register: {:?}", fams(true));
    println!("  v6 send times relative to register: {:?}", fams(false));
    check!(fams(true) == [0, 250, 500, 750, 1750], "v4: probes at +0/+250/+500, announce +750/+1750");
    check!(fams(false) == [0, 250, 500, 750, 1750], "v6: same schedule on the IPv6 socket");

    // Legacy unicast (source port != 5353) on both families.
    let mut query = mdns_sd::verif::parser::encode(&mdns_sd::verif::parser::MsgDesc {
        questions: vec![("_demo2._udp.local.".to_string(), 12)],
        ..Default::default()
    })
    .ok_or("encode query")?
    .remove(0);
    query[0..2].copy_from_slice(&[0x12, 0x34]); // the crate's encoder always writes id 0
    let q4: SocketAddr = "192.168.1.99:40000".parse().unwrap();
    let q6: SocketAddr = "[fe80::99]:40001".parse().unwrap();
    sim.inject(c, 2, true, q4, &query);
    sim.inject(c, 2, false, q6, &query);
    println!("  t={} RX C if=2 legacy queries from {q4} and {q6}", sim.now());
    let out = sim.step(c, &mut pump);
    for p in &out.tx {
        let m = show(&names, p).ok_or("undecodable")?;
        check!(!is_query(&m) && !m.questions.is_empty(), "legacy reply echoes the question");
        println!("      reply id = {:#06x} (query id was 0x1234)", m.id);
    }
    check!(out.tx.len() == 2, "one unicast reply per legacy query");
    check!(out.tx.iter().any(|p| p.v4 && p.dest == Some(q4) && p.if_index == 2), "v4 unicast reply captured");
    check!(out.tx.iter().any(|p| !p.v4 && p.dest == Some(q6) && p.if_index == 2), "v6 unicast reply captured");
    all_tx.extend(sent);
    all_tx.extend(out.tx);

    // Interface changes are picked up by the periodic `check_ip_changes` (every 5 s).
    let mut seen = 0;
    for (what, ifaces, expect) in [
        ("remove 192.168.1.30", vec![v6if(true)], "IpDel(192.168.1.30)"),
        ("eth0 oper-down", vec![v6if(false)], "IpDel(fe80::30)"),
        ("eth0 back with 192.168.1.31", vec![v4if("192.168.1.31")], "IpAdd(192.168.1.31)"),
    ] {
        println!("  t={} (+{}) IFACES C: {what}", sim.now(), sim.now() - T0);
        sim.set_ifaces(c, ifaces);
        let until = sim.now() + 7000;
        let sent = run_until(&mut sim, c, &names, &mut pump, until)?;
        let evs = mon_events.borrow()[seen..].to_vec();
        for ev in &evs {
            println!("      C monitor: {ev}");
        }
        check!(evs.iter().any(|e| e == expect), "monitor reports {expect}");
        seen += evs.len();
        all_tx.extend(sent);
    }
    let last_a = all_tx.iter().rev().filter(|p| p.daemon == c).find_map(|p| {
        decode(&p.bytes, "x", 0)?.answers.iter().find(|r| r.ty == 1).map(rec)
    });
    println!("  last A record announced by C: {last_a:?}");
    check!(last_a.as_deref().map(|r| r.ends_with("192.168.1.31")) == Some(true), "C re-announced with the new address");
    check!(sim.ended(c).is_none() && sim.ended(b).is_none(), "B and C still running");

    drop(sim);
    let real = real_start.elapsed();
    println!("== done: {} packets captured, real time {:?} ==", all_tx.len(), real);
    check!(real.as_millis() < 1000, "whole demo takes well under a second of real time");
    Ok(())
}
