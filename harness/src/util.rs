//! PRNG, hex and token helpers shared by all generators and executors.

/// SplitMix64: every random choice of a run derives from one state (DESIGN.md 3.3).
#[derive(Clone)]
pub struct Rng(pub u64);

impl Rng {
    pub fn new(seed: u64) -> Self {
        Rng(seed ^ 0x9E37_79B9_7F4A_7C15)
    }
    pub fn next(&mut self) -> u64 {
        self.0 = self.0.wrapping_add(0x9E37_79B9_7F4A_7C15);
        let mut z = self.0;
        z = (z ^ (z >> 30)).wrapping_mul(0xBF58_476D_1CE4_E5B9);
        z = (z ^ (z >> 27)).wrapping_mul(0x94D0_49BB_1331_11EB);
        z ^ (z >> 31)
    }
    /// uniform in 0..n (n > 0)
    pub fn below(&mut self, n: u64) -> u64 {
        self.next() % n
    }
    pub fn range(&mut self, lo: u64, hi_incl: u64) -> u64 {
        lo + self.below(hi_incl - lo + 1)
    }
    pub fn chance(&mut self, num: u64, den: u64) -> bool {
        self.below(den) < num
    }
    pub fn pick<'a, T>(&mut self, xs: &'a [T]) -> &'a T {
        &xs[self.below(xs.len() as u64) as usize]
    }
    pub fn bytes(&mut self, n: usize) -> Vec<u8> {
        (0..n).map(|_| self.next() as u8).collect()
    }
    pub fn fork(&mut self) -> Rng {
        Rng(self.next())
    }
}

pub fn hex(b: &[u8]) -> String {
    if b.is_empty() {
        return "-".to_string();
    }
    let mut s = String::with_capacity(b.len() * 2);
    for x in b {
        s.push_str(&format!("{:02x}", x));
    }
    s
}

pub fn unhex(s: &str) -> Option<Vec<u8>> {
    if s == "-" {
        return Some(vec![]);
    }
    if s.len() % 2 != 0 {
        return None;
    }
    (0..s.len() / 2)
        .map(|i| u8::from_str_radix(&s[2 * i..2 * i + 2], 16).ok())
        .collect()
}

/// Token reader over one op line.
pub struct Toks<'a> {
    it: std::str::Split<'a, char>,
}

impl<'a> Toks<'a> {
    pub fn new(line: &'a str) -> Self {
        Toks {
            it: line.trim_end().split(' '),
        }
    }
    pub fn tok(&mut self) -> Option<&'a str> {
        self.it.next()
    }
    pub fn nat(&mut self) -> Option<u64> {
        self.tok()?.parse().ok()
    }
    pub fn boolean(&mut self) -> Option<bool> {
        match self.tok()? {
            "1" => Some(true),
            "0" => Some(false),
            _ => None,
        }
    }
    pub fn hex(&mut self) -> Option<Vec<u8>> {
        unhex(self.tok()?)
    }
    pub fn string(&mut self) -> Option<String> {
        String::from_utf8(self.hex()?).ok()
    }
    pub fn opt_hex(&mut self) -> Option<Option<Vec<u8>>> {
        match self.tok()? {
            "none" => Some(None),
            "some" => Some(Some(self.hex()?)),
            _ => None,
        }
    }
}

pub fn b(v: bool) -> &'static str {
    if v {
        "1"
    } else {
        "0"
    }
}

pub fn opt_hex(v: &Option<Vec<u8>>) -> String {
    match v {
        None => "none".to_string(),
        Some(x) => format!("some {}", hex(x)),
    }
}

/// Runs `f`, mapping a panic to `None`.  The default panic hook is silenced by `main`.
pub fn guarded<T>(f: impl FnOnce() -> T + std::panic::UnwindSafe) -> Option<T> {
    std::panic::catch_unwind(f).ok()
}
