//! C16: TXT properties.  Ops:
//!   txt-trip <kind> <n> (<keyhex> <valopt>)*   kind ∈ vec | slice | map | optmap | none
//!   txt-decode <hex>
//!   txt-decode-unique <hex>
//!   txt-get <n> (<keyhex> <valopt>)* <keyhex>
//!   txt-getters <n> (<keyhex> <valopt>)* <keyhex>   -> <get_property: 0|1> <get_property_val: none|novalue|val <hex>>
//!                                                    <get_property_val_str: none|str <hex|->|str ?>   (`?`: the value is not ASCII)
use crate::util::*;
use mdns_sd::verif::info;
use mdns_sd::{IntoTxtProperties, ServiceInfo, TxtProperty};
use std::collections::HashMap;

type PV = (Vec<u8>, Option<Vec<u8>>);

pub fn props_toks(ps: &[PV]) -> String {
    let mut s = format!("{}", ps.len());
    for (k, v) in ps {
        s.push(' ');
        s.push_str(&hex(k));
        s.push(' ');
        s.push_str(&opt_hex(v));
    }
    s
}

fn read_props(t: &mut Toks) -> Option<Vec<PV>> {
    let n = t.nat()? as usize;
    let mut v = Vec::with_capacity(n);
    for _ in 0..n {
        let k = t.hex()?;
        let val = t.opt_hex()?;
        v.push((k, val));
    }
    Some(v)
}

fn new_info<P: IntoTxtProperties>(p: P) -> Result<ServiceInfo, ()> {
    ServiceInfo::new("_c16._udp.local.", "inst", "host.local.", "192.168.1.2", 80, p).map_err(|_| ())
}

fn mk_props(ps: &[PV]) -> Option<Vec<TxtProperty>> {
    ps.iter()
        .map(|(k, v)| Some(info::prop(std::str::from_utf8(k).ok()?, v.as_deref())))
        .collect()
}

pub fn exec(op: &str, t: &mut Toks) -> Option<String> {
    match op {
        "txt-trip" => {
            let kind = t.tok()?.to_string();
            let ps = read_props(t)?;
            let r = guarded(move || -> Option<Result<ServiceInfo, ()>> {
                Some(match kind.as_str() {
                    "vec" => new_info(mk_props(&ps)?),
                    "slice" => {
                        // &[(String, String)]: values must be UTF-8 and present
                        let v: Option<Vec<(String, String)>> = ps
                            .iter()
                            .map(|(k, v)| {
                                Some((
                                    String::from_utf8(k.clone()).ok()?,
                                    String::from_utf8(v.clone()?).ok()?,
                                ))
                            })
                            .collect();
                        new_info(&v?[..])
                    }
                    "map" | "optmap" => {
                        let mut m = HashMap::new();
                        for (k, v) in &ps {
                            m.insert(
                                String::from_utf8(k.clone()).ok()?,
                                String::from_utf8(v.clone()?).ok()?,
                            );
                        }
                        if kind == "map" {
                            new_info(m)
                        } else {
                            new_info(Some(m))
                        }
                    }
                    "none" => new_info(None::<HashMap<String, String>>),
                    _ => return None,
                })
            });
            Some(match r {
                None => "panic".to_string(),
                Some(None) => return None,
                Some(Some(Err(()))) => "err".to_string(),
                Some(Some(Ok(i))) => {
                    let (stored, txt) = info::txt_of_info(&i);
                    match guarded(|| info::txt_decode_unique(&txt)) {
                        None => format!("ok {} {} panic", props_toks(&stored), hex(&txt)),
                        Some(dec) => {
                            format!("ok {} {} {}", props_toks(&stored), hex(&txt), props_toks(&dec))
                        }
                    }
                }
            })
        }
        "txt-decode" | "txt-decode-unique" => {
            let bytes = t.hex()?;
            let uniq = op == "txt-decode-unique";
            Some(
                match guarded(move || {
                    if uniq {
                        info::txt_decode_unique(&bytes)
                    } else {
                        info::txt_decode(&bytes)
                    }
                }) {
                    None => "panic".to_string(),
                    Some(ps) => format!("ok {}", props_toks(&ps)),
                },
            )
        }
        "txt-get" => {
            let ps = read_props(t)?;
            let key = t.string()?;
            let props = mk_props(&ps)?;
            let r = guarded(move || {
                let tp = props.into_txt_properties();
                tp.get(&key)
                    .map(|p| (p.key().as_bytes().to_vec(), p.val().map(|v| v.to_vec())))
            });
            Some(match r {
                None => "panic".to_string(),
                Some(None) => "none".to_string(),
                Some(Some((k, v))) => format!("some {} {}", hex(&k), opt_hex(&v)),
            })
        }
        "txt-getters" => {
            let ps = read_props(t)?;
            let key = t.string()?;
            let props = mk_props(&ps)?;
            let r = guarded(move || {
                let tp = props.into_txt_properties();
                let gp = tp.get(&key).is_some();
                let gv = match tp.get_property_val(&key) {
                    None => "none".to_string(),
                    Some(None) => "novalue".to_string(),
                    Some(Some(v)) => format!("val {}", hex(v)),
                };
                let non_ascii = tp.get(&key).and_then(|p| p.val().map(|v| v.iter().any(|b| *b >= 0x80))).unwrap_or(false);
                let gs = match tp.get_property_val_str(&key) {
                    None => "none".to_string(),
                    Some(_) if non_ascii => "str ?".to_string(),
                    Some(s) => format!("str {}", hex(s.as_bytes())),
                };
                format!("{} {} {}", b(gp), gv, gs)
            });
            Some(r.unwrap_or_else(|| "panic".to_string()))
        }
        _ => None,
    }
}

const KEY_POOL: &[&str] = &["k", "K", "key", "Key", "KEY", "a", "A", "path", "Path", "x-y_z", "0"];

fn gen_key(r: &mut Rng, valid_only: bool) -> Vec<u8> {
    match r.below(if valid_only { 6 } else { 10 }) {
        0..=2 => r.pick(KEY_POOL).as_bytes().to_vec(),
        3 => {
            let n = *r.pick(&[1usize, 2, 8, 9, 100, 253, 254, 255]);
            (0..n).map(|_| b"abcXYZ019-_ .~"[r.below(14) as usize]).collect()
        }
        4 => vec![*r.pick(&[0x20u8, 0x7e, 0x00, 0x7f, b'!', b'z'])],
        5 => {
            let mut k = r.pick(KEY_POOL).as_bytes().to_vec();
            k.push(b'0' + r.below(10) as u8);
            k
        }
        6 => vec![],                                 // empty key
        7 => "k\u{e9}y".as_bytes().to_vec(),         // non-ASCII
        8 => {
            let mut k = r.pick(KEY_POOL).as_bytes().to_vec();
            k.insert(r.below(k.len() as u64 + 1) as usize, b'=');
            k
        }
        _ => {
            let n = *r.pick(&[256usize, 257, 300]);
            vec![b'q'; n]
        }
    }
}

fn gen_val(r: &mut Rng, klen: usize, utf8: bool) -> Option<Vec<u8>> {
    let room = 254usize.saturating_sub(klen); // so that key + '=' + val == 255 at `room`
    let n = match r.below(10) {
        0 => return None,
        1 => 0,
        2 => room,
        3 => room + 1,
        4 => room.saturating_sub(1),
        5 => 1,
        _ => r.below(20) as usize,
    };
    Some(if utf8 {
        (0..n).map(|_| b"v=V 0\"a"[r.below(7) as usize]).collect()
    } else {
        (0..n)
            .map(|_| match r.below(4) {
                0 => b'=',
                1 => 0,
                _ => r.next() as u8,
            })
            .collect()
    })
}

pub fn gen_props(r: &mut Rng, utf8_vals: bool, need_val: bool) -> Vec<PV> {
    let n = match r.below(8) {
        0 => 0,
        1 => 1,
        7 => r.range(10, 40) as usize,
        _ => r.range(2, 6) as usize,
    };
    // most lists are entirely valid; a separate share carries invalid entries
    let valid_only = r.chance(3, 4);
    (0..n)
        .map(|_| {
            let k = gen_key(r, valid_only);
            let mut v = gen_val(r, k.len(), utf8_vals);
            if need_val && v.is_none() {
                v = Some(vec![]);
            }
            if valid_only {
                if let Some(x) = &mut v {
                    if k.len() + 1 + x.len() > 255 && r.chance(2, 3) {
                        x.truncate(254usize.saturating_sub(k.len()));
                    }
                }
            }
            (k, v)
        })
        .collect()
}

fn gen_txt_bytes(r: &mut Rng) -> Vec<u8> {
    match r.below(5) {
        0 => {
            let n = r.below(40) as usize;
            r.bytes(n)
        }
        1 => {
            // well-formed strings, some with odd content
            let mut out = vec![];
            for _ in 0..r.below(6) {
                let n = r.below(12) as usize;
                out.push(n as u8);
                for _ in 0..n {
                    out.push(*r.pick(&[b'a', b'A', b'=', 0, 0xC3, 0xA9, 0xFF, b'b', b'B']));
                }
            }
            if r.chance(1, 3) {
                out.push(r.next() as u8);
            } // dangling length
            out
        }
        2 => {
            // encoded valid properties, then mutated
            let ps = gen_props(r, false, false);
            let props: Vec<TxtProperty> = ps
                .iter()
                .filter(|(k, v)| {
                    std::str::from_utf8(k).is_ok() && k.len() + v.as_ref().map_or(0, |v| v.len() + 1) <= 255
                })
                .map(|(k, v)| info::prop(std::str::from_utf8(k).unwrap(), v.as_deref()))
                .collect();
            let mut b = info::txt_encode(&props);
            if !b.is_empty() && r.chance(1, 2) {
                let i = r.below(b.len() as u64) as usize;
                b[i] = r.next() as u8;
            }
            if r.chance(1, 4) {
                let n = r.below(b.len() as u64 + 1) as usize;
                b.truncate(n);
            }
            b
        }
        3 => {
            let n = *r.pick(&[254usize, 255, 256, 257, 511, 512]);
            let mut v = vec![255u8];
            v.extend(std::iter::repeat(b'k').take(n));
            v
        }
        _ => {
            let n = r.below(6) as usize;
            (0..n).map(|_| *r.pick(&[0u8, 1, 2, b'=', b'a', b'A', 0x80])).collect()
        }
    }
}

fn all_ascii_keys(txt: &[u8]) -> bool {
    info::txt_decode(txt).iter().all(|(k, _)| k.is_ascii())
}

pub fn generate(r: &mut Rng, tier: &str, emit: &mut dyn FnMut(String)) {
    let n = if tier == "thorough" { 60000 } else { 6000 };
    for i in 0..n {
        match i % 6 {
            0 | 1 => {
                let ps = gen_props(r, false, false);
                emit(format!("txt-trip vec {}", props_toks(&ps)));
            }
            2 => {
                let kind = *r.pick(&["slice", "map", "optmap"]);
                let mut ps = gen_props(r, true, true);
                if kind != "slice" {
                    // a map has unique keys
                    let mut seen = std::collections::HashSet::new();
                    ps.retain(|(k, _)| seen.insert(k.clone()));
                    // keys of a map op are listed in the order the real conversion stores
                    // them (a map has no order of its own); unknown when creation fails.
                    let mut m = HashMap::new();
                    let mut ok = true;
                    for (k, v) in &ps {
                        match (String::from_utf8(k.clone()), String::from_utf8(v.clone().unwrap())) {
                            (Ok(k), Ok(v)) => {
                                m.insert(k, v);
                            }
                            _ => ok = false,
                        }
                    }
                    if !ok {
                        continue;
                    }
                    // (the stored order is read from the crate; if the crate panics here - which the
                    // txt-trip op itself then reports - keep the generated order)
                    let mm = m.clone();
                    if let Ok(Some(stored)) = std::panic::catch_unwind(move || new_info(mm).ok().map(|i| info::txt_of_info(&i).0)) {
                        ps = stored;
                    }
                } else if ps.iter().any(|(k, _)| std::str::from_utf8(k).is_err()) {
                    continue;
                }
                if i % 600 == 2 {
                    emit("txt-trip none 0".to_string());
                }
                emit(format!("txt-trip {} {}", kind, props_toks(&ps)));
            }
            3 => {
                let b = gen_txt_bytes(r);
                emit(format!("txt-decode {}", hex(&b)));
            }
            4 => {
                let b = gen_txt_bytes(r);
                // the model lower-cases ASCII only (DESIGN.md 7): keep unique-decoding to ASCII keys
                if all_ascii_keys(&b) {
                    emit(format!("txt-decode-unique {}", hex(&b)));
                } else {
                    emit(format!("txt-decode {}", hex(&b)));
                }
            }
            _ => {
                let mut ps = gen_props(r, false, false);
                ps.retain(|(k, _)| k.is_ascii());
                let key = if !ps.is_empty() && r.chance(3, 4) {
                    let k = r.pick(&ps).0.clone();
                    if r.chance(1, 2) {
                        k.to_ascii_uppercase()
                    } else {
                        k.to_ascii_lowercase()
                    }
                } else {
                    gen_key(r, true)
                };
                emit(format!("txt-get {} {}", props_toks(&ps), hex(&key)));
                emit(format!("txt-getters {} {}", props_toks(&ps), hex(&key)));
            }
        }
    }
}
