//! C14: shutdown.  (a) `sim C14 …` histories: a burst of queued commands with a shutdown at
//! every position; (b) `stress-shutdown <seed> <threads> <calls>`: REAL daemon threads (no
//! simulation armed), several client threads issuing calls while another shuts down, a
//! watchdog on every call and on every reply receiver.
use crate::scen::*;
use crate::util::*;
use mdns_sd::{DaemonStatus, ServiceDaemon, ServiceInfo};
use std::sync::atomic::{AtomicBool, AtomicU64, Ordering};
use std::sync::Arc;
use std::time::{Duration, Instant};

#[derive(Default)]
struct Tally {
    calls: AtomicU64,
    values: AtomicU64,
    closed: AtomicU64,
    err_shutdown: AtomicU64,
    err_again: AtomicU64,
    err_other: AtomicU64,
    panics: AtomicU64,
    blocked: AtomicU64,
    after_ok: AtomicU64,
}

fn classify<T>(t: &Tally, r: &mdns_sd::Result<T>, after: bool) {
    t.calls.fetch_add(1, Ordering::SeqCst);
    match r {
        Ok(_) => {
            if after {
                t.after_ok.fetch_add(1, Ordering::SeqCst);
            }
        }
        Err(mdns_sd::Error::DaemonShutdown) => {
            t.err_shutdown.fetch_add(1, Ordering::SeqCst);
        }
        Err(mdns_sd::Error::Again) => {
            t.err_again.fetch_add(1, Ordering::SeqCst);
        }
        Err(_) => {
            t.err_other.fetch_add(1, Ordering::SeqCst);
        }
    }
}

fn await_reply<T>(t: &Tally, rx: &mdns_sd::Receiver<T>) {
    match rx.recv_timeout(Duration::from_secs(4)) {
        Ok(_) => {
            t.values.fetch_add(1, Ordering::SeqCst);
        }
        Err(flume::RecvTimeoutError::Disconnected) => {
            t.closed.fetch_add(1, Ordering::SeqCst);
        }
        Err(flume::RecvTimeoutError::Timeout) => {
            t.blocked.fetch_add(1, Ordering::SeqCst);
        }
    }
}

fn one_call(d: &ServiceDaemon, r: &mut Rng, t: &Tally, after: bool, tid: u64) {
    let ty = format!("_st{}._udp.local.", r.below(3));
    match r.below(11) {
        0 => {
            let x = d.browse(&ty);
            classify(t, &x, after);
        }
        1 => {
            let x = d.stop_browse(&ty);
            classify(t, &x, after);
        }
        2 => {
            let x = d.resolve_hostname(&format!("st-host{}.local.", r.below(3)), Some(500));
            classify(t, &x, after);
        }
        3 => {
            let info = ServiceInfo::new(&ty, &format!("i{}-{}", tid, r.below(4)), "st-host.local.", "127.0.0.1", 4000, None::<std::collections::HashMap<String, String>>);
            if let Ok(mut info) = info {
                info.set_requires_probe(r.chance(1, 2));
                let x = d.register(info);
                classify(t, &x, after);
            }
        }
        4 => {
            let x = d.unregister(&format!("i{}-{}.{}", tid, r.below(4), ty));
            classify(t, &x, after);
            if let Ok(rx) = x {
                await_reply(t, &rx);
            }
        }
        5 => {
            let x = d.status();
            // status() answers locally once the daemon is gone: Ok is expected then
            t.calls.fetch_add(1, Ordering::SeqCst);
            match x {
                Ok(rx) => match rx.recv_timeout(Duration::from_secs(4)) {
                    Ok(DaemonStatus::Shutdown) => {
                        t.values.fetch_add(1, Ordering::SeqCst);
                    }
                    Ok(_) => {
                        t.values.fetch_add(1, Ordering::SeqCst);
                        if after {
                            t.after_ok.fetch_add(1, Ordering::SeqCst); // Running reported after Shutdown
                        }
                    }
                    Err(flume::RecvTimeoutError::Disconnected) => {
                        t.closed.fetch_add(1, Ordering::SeqCst);
                    }
                    Err(flume::RecvTimeoutError::Timeout) => {
                        t.blocked.fetch_add(1, Ordering::SeqCst);
                    }
                },
                Err(mdns_sd::Error::DaemonShutdown) => {
                    t.err_shutdown.fetch_add(1, Ordering::SeqCst);
                }
                Err(_) => {
                    t.err_other.fetch_add(1, Ordering::SeqCst);
                }
            }
        }
        6 => {
            let x = d.get_metrics();
            classify(t, &x, after);
            if let Ok(rx) = x {
                await_reply(t, &rx);
            }
        }
        7 => {
            let x = d.monitor();
            classify(t, &x, after);
        }
        8 => {
            let x = d.verify(format!("i0-0.{}", ty), Duration::from_millis(200));
            classify(t, &x, after);
        }
        9 => {
            let x = d.set_ip_check_interval(r.below(10) as u32);
            classify(t, &x, after);
        }
        _ => {
            let x = d.stop_resolve_hostname("st-host1.local.");
            classify(t, &x, after);
        }
    }
}

fn stress(seed: u64, threads: u64, calls: u64) -> String {
    let daemon = match ServiceDaemon::new() {
        Ok(d) => d,
        Err(_) => return "daemon-new-failed".to_string(),
    };
    let tally = Arc::new(Tally::default());
    let shut_seen = Arc::new(AtomicBool::new(false));
    let start = Instant::now();
    let mut handles = vec![];
    for tid in 0..threads {
        let d = daemon.clone();
        let t = tally.clone();
        let seen = shut_seen.clone();
        handles.push(std::thread::spawn(move || {
            let mut r = Rng::new(seed.wrapping_mul(1000).wrapping_add(tid));
            for _ in 0..calls {
                // `after` is sampled BEFORE the call starts: only calls that begin after the
                // Shutdown status was received are required to fail
                let after = seen.load(Ordering::SeqCst);
                let res = std::panic::catch_unwind(std::panic::AssertUnwindSafe(|| one_call(&d, &mut r, &t, after, tid)));
                if res.is_err() {
                    t.panics.fetch_add(1, Ordering::SeqCst);
                }
                if r.chance(1, 3) {
                    std::thread::sleep(Duration::from_micros(r.below(400)));
                }
            }
        }));
    }
    // the shutting-down thread
    let status_ok = {
        let d = daemon.clone();
        let seen = shut_seen.clone();
        let mut r = Rng::new(seed ^ 0xABCD);
        let h = std::thread::spawn(move || {
            std::thread::sleep(Duration::from_micros(r.below(3000)));
            match d.shutdown() {
                Ok(rx) => match rx.recv_timeout(Duration::from_secs(5)) {
                    Ok(DaemonStatus::Shutdown) => {
                        seen.store(true, Ordering::SeqCst);
                        1
                    }
                    Ok(_) => 2,
                    Err(_) => 0,
                },
                Err(_) => 3,
            }
        });
        h.join().unwrap_or(9)
    };
    let deadline = Instant::now() + Duration::from_secs(12);
    let mut stuck = 0;
    for h in handles {
        while !h.is_finished() && Instant::now() < deadline {
            std::thread::sleep(Duration::from_millis(2));
        }
        if h.is_finished() {
            let _ = h.join();
        } else {
            stuck += 1; // leaked: a call that blocks for ever
        }
    }
    let t = &tally;
    format!(
        "ok | calls={} values={} closed={} errs-shutdown={} errs-again={} errs-other={} panics={} blocked={} stuck-threads={} after-ok={} shutdown-status={} ms={}",
        t.calls.load(Ordering::SeqCst),
        t.values.load(Ordering::SeqCst),
        t.closed.load(Ordering::SeqCst),
        t.err_shutdown.load(Ordering::SeqCst),
        t.err_again.load(Ordering::SeqCst),
        t.err_other.load(Ordering::SeqCst),
        t.panics.load(Ordering::SeqCst),
        t.blocked.load(Ordering::SeqCst),
        stuck,
        t.after_ok.load(Ordering::SeqCst),
        status_ok,
        start.elapsed().as_millis()
    )
}

pub fn exec(_op: &str, t: &mut Toks) -> Option<String> {
    let seed = t.nat()?;
    let threads = t.nat()?;
    let calls = t.nat()?;
    Some(stress(seed, threads.min(16), calls.min(500)))
}

const QUEUED: &[&str] = &["metrics", "status", "unreg", "unreg-unknown", "browse", "resolve", "stopbrowse", "monitor", "verify", "register", "shutdown"];

/// A world with registrations and searches, then a burst of queued commands (no loop
/// iteration in between) with a shutdown at position `pos` among `others`.
pub fn gen_burst(r: &mut Rng, others: &[&str], pos: usize) -> String {
    let mut k = Knobs::base("C14");
    k.responders = 1;
    k.steps = r.range(2, 5);
    k.p_register = 5;
    k.p_browse = 0;
    k.p_resolve = 0;
    k.p_unregister = 0;
    k.p_stop = 0;
    k.tail = 3000;
    k.max_dt = 2000;
    let world = gen_world(r, &k);
    let mut cmds: Vec<String> = world.trim_start_matches("sim C14 ").split(" ; ").map(|s| s.to_string()).collect();
    // the daemon under test is 1 (it has the registrations); give it searches of its own
    let mut chan = 500u64;
    let now: u64 = cmds.iter().rev().find_map(|c| c.strip_prefix("run ").and_then(|x| x.parse().ok())).unwrap_or(1_000_000);
    for ty in TYPES.iter().take(r.range(0, 2) as usize) {
        chan += 1;
        cmds.push(format!("browse 1 {} {}", chan, hx(ty)));
    }
    if r.chance(1, 2) {
        chan += 1;
        cmds.push(format!("resolve 1 {} {} none", chan, hx("alpha.local.")));
    }
    cmds.push(format!("run {}", now + 2500));
    // the burst
    let mut seq: Vec<&str> = others.to_vec();
    seq.insert(pos.min(seq.len()), "shutdown");
    for c in seq {
        chan += 1;
        cmds.push(match c {
            "metrics" => format!("metrics 1 {}", chan),
            "status" => format!("status 1 {}", chan),
            "unreg" => format!("unregister 1 {} {}", chan, hx(&format!("{}.{}", "web", TYPES[0]))),
            "unreg-unknown" => format!("unregister 1 {} {}", chan, hx("nosuch._x._udp.local.")),
            "browse" => format!("browse 1 {} {}", chan, hx(TYPES[2])),
            "resolve" => format!("resolve 1 {} {} some 5000", chan, hx("Beta.local.")),
            "stopbrowse" => format!("stopbrowse 1 {}", hx(TYPES[0])),
            "monitor" => format!("monitor 1 {}", chan),
            "verify" => format!("verify 1 {} 1000", hx("web._http._tcp.local.")),
            "register" => format!("register 1 {} {} {} 80 1 192.168.1.20 0 0 0", hx(TYPES[1]), hx("late"), hx("alpha.local.")),
            _ => format!("shutdown 1 {}", chan),
        });
    }
    cmds.push(format!("run {}", now + 2600));
    // calls after the end, on the handle of the daemon that is gone
    for c in ["status", "metrics", "browse", "register", "unreg", "shutdown", "status"] {
        chan += 1;
        cmds.push(match c {
            "metrics" => format!("metrics 1 {}", chan),
            "status" => format!("status 1 {}", chan),
            "unreg" => format!("unregister 1 {} {}", chan, hx("web._http._tcp.local.")),
            "browse" => format!("browse 1 {} {}", chan, hx(TYPES[0])),
            "register" => format!("register 1 {} {} {} 80 1 192.168.1.20 0 0 0", hx(TYPES[1]), hx("after"), hx("alpha.local.")),
            _ => format!("shutdown 1 {}", chan),
        });
    }
    cmds.push(format!("run {}", now + 5000));
    format!("sim C14 {}", cmds.join(" ; "))
}

/// A client that has stopped reading: its search channel (capacity 10) is full - ten SearchStarted
/// of a browse left unread for ten minutes, or nine and a room of one - when the daemon shuts down.
/// SearchStopped must still be the last thing the channel delivers.  (`hold`: see simop.rs - when the
/// daemon blocks in its send the harness reads after all, as a slow client would.)
pub fn gen_full_channel(r: &mut Rng) -> String {
    // (the monitor of `sim C14` histories judges daemon 1: daemon 0 is a bystander on no link)
    let mut cmds: Vec<String> = vec![
        format!("daemon {}", ifaces_of(0, false)),
        format!("daemon {}", ifaces_of(1, false)),
        "ipint 0 100000".to_string(),
        "ipint 1 100000".to_string(),
    ];
    let t0 = 1_000_000u64;
    cmds.push(format!("run {}", t0));
    let host = r.chance(1, 3);
    if host {
        cmds.push(format!("resolve 1 1 {} none", hx("unread.local.")));
    } else {
        cmds.push(format!("browse 1 1 {}", hx(TYPES[0])));
    }
    cmds.push("hold 1 1".to_string());
    // re-runs at +1, 3, 7, ... 511 s: the tenth SearchStarted is queued at +511 s, the eleventh would
    // come at +1023 s
    let until = *r.pick(&[520_000u64, 600_000, 300_000, 1_000_000]);
    cmds.push(format!("run {}", t0 + until));
    cmds.push("shutdown 1 2".to_string());
    cmds.push(format!("run {}", t0 + until + 100));
    cmds.push("release 1 1".to_string());
    cmds.push(format!("run {}", t0 + until + 1000));
    format!("sim C14 {}", cmds.join(" ; "))
}

pub fn generate(r: &mut Rng, tier: &str, emit: &mut dyn FnMut(String)) {
    let thorough = tier == "thorough";
    // every position of the shutdown among up to N other queued commands
    let kinds: Vec<&str> = QUEUED.iter().copied().collect();
    let n_bursts = if thorough { 1200 } else { 120 };
    for i in 0..n_bursts {
        let n = (i % 5) as usize; // 0..4 other commands
        let others: Vec<&str> = (0..n).map(|_| *r.pick(&kinds)).collect();
        for pos in 0..=n {
            if !thorough && r.chance(1, 2) && pos != 0 && pos != n {
                continue;
            }
            emit(gen_burst(r, &others, pos));
        }
    }
    for _ in 0..(if thorough { 60 } else { 8 }) {
        emit(gen_full_channel(r));
    }
    let n_stress = if thorough { 400 } else { 40 };
    for i in 0..n_stress {
        emit(format!("stress-shutdown {} {} {}", r.next() % 1_000_000, 2 + i % 5, 20 + 10 * (i % 4)));
    }
}
