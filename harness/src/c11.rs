//! C11 / C10: record lifetime, refresh schedule, cache-flush, eviction, known answers.
//!
//! Record description (`recdesc`):  <namehex> <ty> <cls> <flush> <ttl> <rdata>
//!   rdata:  addr <iphex 4|16 bytes> <ifnamehex> <ifidx> | ptr <hex> | srv <prio> <weight> <port> <hosthex>
//!           | txt <hex> | hinfo <cpuhex> <oshex> | nsec <nexthex> <bitmaphex>
//! Cache entry (`entry`):  <namehex> <ty> <cls> <flush> <ttl> <created> <expires> <refresh> <rdata> <srcifhex> <srcidx>
//!
//! Ops:
//!   rec-life <created> <ttl> <n> (<step>)*        scripted life of ONE fresh record
//!     steps (answer tokens):  exp t (b) | soon t (b) | due t (b) | half t (b) | refresh t (b refresh)
//!       | upd t (none | some t') | nomore (refresh) | reset c2 ttl2 (ttl created expires refresh)
//!       | updttl t (ok ttl | panic) | remttl t (ok n | panic) | sooner t (expires) | setexp t (expires)
//!       | view (ttl created expires refresh)
//!   suppress <recdesc mine> <recdesc other>        -> <matches> <rrdata_match> <suppressed_by_answer>
//!   suppress-msg <recdesc mine> <ifnamehex> <ifidx> <packethex>   -> none | some b
//!   cache-seq <n> (<cmd>)*                         all on one cache; answers joined by ` ; `
//!     add <created> <now> <ifnamehex> <ifidx> <forus> <recdesc>  -> none k t.. | some <isnew> <entry> k t..
//!     evicta <now> -> n (<namehex> <iphex> <ifhex> <ifidx>)*          (sorted, distinct)
//!     evicts <now> -> n (<tyhex> <insthex>)*                          (sorted, distinct)
//!     known <namehex> <ty> <now> -> badtype | n (<entry> ok <written ttl> | <entry> panic)*
//!     refptr <tyhex> <now> -> n t*                                    (sorted, distinct)
//!     refst <tyhex> <now>  -> n (<insthex> k ty*)* m t*
//!     refhosts <tyhex> <now> -> n hosthex* m t*
//!     refres <hosthex> <now> -> n (<hosthex> <iphex> <ifhex> <ifidx>)*
//!     rmtype <tyhex> -> -
//!     verify <insthex> none|some <t> -> n (<namehex> <ty>)*
//!     dump -> ptr <tbl> srv <tbl> txt <tbl> addr <tbl> nsec <tbl> sub n (<khex> <vhex>)*
//!             tbl = nkeys (<keyhex> nentries <entry>*)*
use crate::util::*;
use mdns_sd::verif::cache::{self, AddView, CacheHandle, EntryView};
use mdns_sd::verif::clock;
use mdns_sd::verif::parser::{self, MsgDesc, RDataView, RecDesc, RecHandle, RecView};
use mdns_sd::ScopedIp;
use std::net::{IpAddr, Ipv4Addr, Ipv6Addr};
use std::panic::AssertUnwindSafe;

// ----------------------------------------------------------------------------- tokens

fn ip_hex(ip: &IpAddr) -> String {
    match ip {
        IpAddr::V4(a) => hex(&a.octets()),
        IpAddr::V6(a) => hex(&a.octets()),
    }
}

fn ip_of(b: &[u8]) -> Option<IpAddr> {
    match b.len() {
        4 => Some(IpAddr::V4(Ipv4Addr::new(b[0], b[1], b[2], b[3]))),
        16 => {
            let mut o = [0u8; 16];
            o.copy_from_slice(b);
            Some(IpAddr::V6(Ipv6Addr::from(o)))
        }
        _ => None,
    }
}

pub fn rdata_toks(r: &RDataView) -> String {
    match r {
        RDataView::Addr { ip, if_name, if_index } => {
            format!("addr {} {} {}", ip_hex(ip), hex(if_name.as_bytes()), if_index)
        }
        RDataView::Ptr(s) => format!("ptr {}", hex(s.as_bytes())),
        RDataView::Srv { priority, weight, port, host } => {
            format!("srv {} {} {} {}", priority, weight, port, hex(host.as_bytes()))
        }
        RDataView::Txt(t) => format!("txt {}", hex(t)),
        RDataView::Hinfo { cpu, os } => format!("hinfo {} {}", hex(cpu.as_bytes()), hex(os.as_bytes())),
        RDataView::Nsec { next, bitmap } => format!("nsec {} {}", hex(next.as_bytes()), hex(bitmap)),
    }
}

fn read_rdata(t: &mut Toks) -> Option<RDataView> {
    Some(match t.tok()? {
        "addr" => {
            let ip = ip_of(&t.hex()?)?;
            let if_name = t.string()?;
            let if_index = u32::try_from(t.nat()?).ok()?;
            RDataView::Addr { ip, if_name, if_index }
        }
        "ptr" => RDataView::Ptr(t.string()?),
        "srv" => {
            let priority = u16::try_from(t.nat()?).ok()?;
            let weight = u16::try_from(t.nat()?).ok()?;
            let port = u16::try_from(t.nat()?).ok()?;
            RDataView::Srv { priority, weight, port, host: t.string()? }
        }
        "txt" => RDataView::Txt(t.hex()?),
        "hinfo" => {
            let cpu = t.string()?;
            RDataView::Hinfo { cpu, os: t.string()? }
        }
        "nsec" => {
            let next = t.string()?;
            RDataView::Nsec { next, bitmap: t.hex()? }
        }
        _ => return None,
    })
}

pub fn desc_toks(d: &RecDesc) -> String {
    format!(
        "{} {} {} {} {} {}",
        hex(d.name.as_bytes()),
        d.ty,
        d.class & 0x7fff,
        b(d.class & 0x8000 != 0),
        d.ttl,
        rdata_toks(&d.rdata)
    )
}

fn read_desc(t: &mut Toks) -> Option<RecDesc> {
    let name = t.string()?;
    let ty = u16::try_from(t.nat()?).ok()?;
    let cls = u16::try_from(t.nat()?).ok()?;
    if cls > 0x7fff {
        return None;
    }
    let flush = t.boolean()?;
    let ttl = u32::try_from(t.nat()?).ok()?;
    let rdata = read_rdata(t)?;
    // the constructors of SRV / TXT / NSEC fix the type themselves
    let forced = match rdata {
        RDataView::Srv { .. } => Some(33),
        RDataView::Txt(_) => Some(16),
        RDataView::Nsec { .. } => Some(47),
        _ => None,
    };
    if forced.map_or(false, |f| f != ty) || mdns_sd::RRType::from_u16(ty).is_none() {
        return None;
    }
    Some(RecDesc { name, ty, class: cls | if flush { 0x8000 } else { 0 }, ttl, rdata })
}

fn rec_toks(r: &RecView) -> String {
    format!(
        "{} {} {} {} {} {} {} {} {}",
        hex(r.name.as_bytes()),
        r.ty,
        r.class,
        b(r.flush),
        r.ttl,
        r.created,
        r.expires,
        r.refresh,
        rdata_toks(&r.rdata)
    )
}

fn entry_toks(e: &EntryView) -> String {
    format!("{} {} {}", rec_toks(&e.rec), hex(e.src_name.as_bytes()), e.src_index)
}

fn life_toks(r: &RecView) -> String {
    format!("{} {} {} {}", r.ttl, r.created, r.expires, r.refresh)
}

fn build_at(created: u64, d: &RecDesc) -> Option<RecHandle> {
    clock::set(Some(created));
    RecHandle::new(d)
}

fn scoped_toks(ip: &ScopedIp) -> String {
    match ip {
        ScopedIp::V4(v) => {
            let (n, i) = v.interface_ids().first().map(|x| (x.name.clone(), x.index)).unwrap_or_default();
            format!("{} {} {}", hex(&v.addr().octets()), hex(n.as_bytes()), i)
        }
        ScopedIp::V6(v) => {
            format!("{} {} {}", hex(&v.addr().octets()), hex(v.scope_id().name.as_bytes()), v.scope_id().index)
        }
        _ => "?".to_string(),
    }
}

fn sorted_items(mut v: Vec<String>) -> String {
    v.sort();
    v.dedup();
    let mut s = format!("{}", v.len());
    for x in v {
        s.push(' ');
        s.push_str(&x);
    }
    s
}

fn sorted_nats(v: impl IntoIterator<Item = u64>) -> String {
    let mut v: Vec<u64> = v.into_iter().collect();
    v.sort();
    v.dedup();
    let mut s = format!("{}", v.len());
    for x in v {
        s.push_str(&format!(" {}", x));
    }
    s
}

// ------------------------------------------------------------------------------- exec

const LIFE_NAME: &str = "_c11._udp.local.";

fn life_desc(ttl: u32) -> RecDesc {
    RecDesc { name: LIFE_NAME.into(), ty: 12, class: 1, ttl, rdata: RDataView::Ptr(format!("i.{}", LIFE_NAME)) }
}

fn exec_life(t: &mut Toks) -> Option<String> {
    let created = t.nat()?;
    let ttl = u32::try_from(t.nat()?).ok()?;
    let n = t.nat()? as usize;
    let mut h = build_at(created, &life_desc(ttl))?;
    let mut out: Vec<String> = Vec::with_capacity(n);
    for _ in 0..n {
        let kind = t.tok()?;
        let ans: Option<String> = match kind {
            "exp" | "soon" | "due" | "half" => {
                let now = t.nat()?;
                guarded(AssertUnwindSafe(|| match kind {
                    "exp" => h.is_expired(now),
                    "soon" => h.expires_soon(now),
                    "due" => h.refresh_due(now),
                    _ => h.halflife_passed(now),
                }))
                .map(|x| b(x).to_string())
            }
            "refresh" => {
                let now = t.nat()?;
                guarded(AssertUnwindSafe(|| h.refresh_maybe(now))).map(|x| format!("{} {}", b(x), h.view().refresh))
            }
            "upd" => {
                let now = t.nat()?;
                guarded(AssertUnwindSafe(|| h.updated_refresh_time(now))).map(|x| match x {
                    None => "none".to_string(),
                    Some(v) => format!("some {}", v),
                })
            }
            "nomore" => guarded(AssertUnwindSafe(|| h.refresh_no_more())).map(|_| format!("{}", h.view().refresh)),
            "reset" => {
                let c2 = t.nat()?;
                let ttl2 = u32::try_from(t.nat()?).ok()?;
                let other = build_at(c2, &life_desc(ttl2))?;
                guarded(AssertUnwindSafe(|| h.reset_ttl(&other))).map(|_| life_toks(&h.view()))
            }
            "updttl" => {
                let now = t.nat()?;
                Some(match guarded(AssertUnwindSafe(|| h.update_ttl(now))) {
                    Some(()) => format!("ok {}", h.view().ttl),
                    None => "panic".to_string(),
                })
            }
            "remttl" => {
                let now = t.nat()?;
                Some(match guarded(AssertUnwindSafe(|| h.remaining_ttl(now))) {
                    Some(v) => format!("ok {}", v),
                    None => "panic".to_string(),
                })
            }
            "sooner" => {
                let x = t.nat()?;
                guarded(AssertUnwindSafe(|| h.set_expire_sooner(x))).map(|_| format!("{}", h.view().expires))
            }
            "setexp" => {
                let x = t.nat()?;
                guarded(AssertUnwindSafe(|| h.set_expire(x))).map(|_| format!("{}", h.view().expires))
            }
            "view" => Some(life_toks(&h.view())),
            _ => return None,
        };
        match ans {
            Some(a) => out.push(a),
            None => {
                // a panic where the model has none: end of the observation
                out.push("panic".to_string());
                break;
            }
        }
    }
    Some(out.join(" "))
}

fn exec_suppress(t: &mut Toks) -> Option<String> {
    let mine = read_desc(t)?;
    let other = read_desc(t)?;
    let m = build_at(1_000_000, &mine)?;
    let o = build_at(1_000_000, &other)?;
    Some(match guarded(AssertUnwindSafe(|| (m.matches(&o), m.rrdata_match(&o), m.suppressed_by_answer(&o)))) {
        None => "panic".to_string(),
        Some((a, r, s)) => format!("{} {} {}", b(a), b(r), b(s)),
    })
}

fn exec_suppress_msg(t: &mut Toks) -> Option<String> {
    let mine = read_desc(t)?;
    let if_name = t.string()?;
    let if_index = u32::try_from(t.nat()?).ok()?;
    let pkt = t.hex()?;
    let m = build_at(1_000_000, &mine)?;
    Some(match guarded(AssertUnwindSafe(|| cache::suppressed_by_packet(&m, &pkt, &if_name, if_index))) {
        None => "panic".to_string(),
        Some(None) => "none".to_string(),
        Some(Some(v)) => format!("some {}", b(v)),
    })
}

fn table_toks(tbl: &[(String, Vec<EntryView>)]) -> String {
    let mut s = format!("{}", tbl.len());
    for (k, es) in tbl {
        s.push_str(&format!(" {} {}", hex(k.as_bytes()), es.len()));
        for e in es {
            s.push(' ');
            s.push_str(&entry_toks(e));
        }
    }
    s
}

fn add_toks(a: &AddView) -> String {
    let mut s = match &a.result {
        None => "none".to_string(),
        Some((e, is_new)) => format!("some {} {}", b(*is_new), entry_toks(e)),
    };
    s.push_str(&format!(" {}", a.timers.len()));
    for x in &a.timers {
        s.push_str(&format!(" {}", x));
    }
    s
}

fn exec_cache_cmd(c: &mut CacheHandle, t: &mut Toks) -> Option<String> {
    Some(match t.tok()? {
        "add" => {
            let created = t.nat()?;
            let now = t.nat()?;
            let if_name = t.string()?;
            let if_index = u32::try_from(t.nat()?).ok()?;
            let for_us = t.boolean()?;
            let d = read_desc(t)?;
            let rec = build_at(created, &d)?;
            clock::set(Some(now));
            add_toks(&c.add_or_update_record(&if_name, if_index, rec, for_us))
        }
        "evicta" => {
            let now = t.nat()?;
            let removed = c.evict_expired_addr(now);
            let mut items = vec![];
            for (name, ips) in &removed {
                for ip in ips {
                    items.push(format!("{} {}", hex(name.as_bytes()), scoped_toks(ip)));
                }
            }
            sorted_items(items)
        }
        "evicts" => {
            let now = t.nat()?;
            let removed = c.evict_expired_services(now);
            let mut items = vec![];
            for (ty, insts) in &removed {
                for i in insts {
                    items.push(format!("{} {}", hex(ty.as_bytes()), hex(i.as_bytes())));
                }
            }
            sorted_items(items)
        }
        "known" => {
            let name = t.string()?;
            let ty = u16::try_from(t.nat()?).ok()?;
            let now = t.nat()?;
            match c.get_known_answers(&name, ty, now) {
                None => "badtype".to_string(),
                Some(v) => {
                    let mut s = format!("{}", v.len());
                    for (mut h, e) in v {
                        s.push(' ');
                        s.push_str(&entry_toks(&e));
                        // what `send_query_vec` does with the clone before adding it to the query
                        match guarded(AssertUnwindSafe(|| h.update_ttl(now))) {
                            Some(()) => s.push_str(&format!(" ok {}", h.view().ttl)),
                            None => s.push_str(" panic"),
                        }
                    }
                    s
                }
            }
        }
        "refptr" => {
            let ty = t.string()?;
            clock::set(Some(t.nat()?));
            sorted_nats(c.refresh_due_ptr(&ty))
        }
        "refst" => {
            let ty = t.string()?;
            clock::set(Some(t.nat()?));
            let (due, timers) = c.refresh_due_srv_txt(&ty);
            let items = due
                .iter()
                .map(|(k, v)| {
                    let mut s = format!("{} {}", hex(k.as_bytes()), v.len());
                    for x in v {
                        s.push_str(&format!(" {}", x));
                    }
                    s
                })
                .collect();
            format!("{} {}", sorted_items(items), sorted_nats(timers))
        }
        "refhosts" => {
            let ty = t.string()?;
            clock::set(Some(t.nat()?));
            let (hosts, timers) = c.refresh_due_hosts(&ty);
            format!("{} {}", sorted_items(hosts.iter().map(|h| hex(h.as_bytes())).collect()), sorted_nats(timers))
        }
        "refres" => {
            let host = t.string()?;
            clock::set(Some(t.nat()?));
            let due = c.refresh_due_hostname_resolutions(&host);
            sorted_items(due.iter().map(|(h, ip)| format!("{} {}", hex(h.as_bytes()), scoped_toks(ip))).collect())
        }
        "rmtype" => {
            let ty = t.string()?;
            c.remove_service_type(&ty);
            "-".to_string()
        }
        "verify" => {
            let inst = t.string()?;
            let at = match t.tok()? {
                "none" => None,
                "some" => Some(t.nat()?),
                _ => return None,
            };
            let q = c.service_verify_queries(&inst, at);
            let mut s = format!("{}", q.len());
            for (n, ty) in q {
                s.push_str(&format!(" {} {}", hex(n.as_bytes()), ty));
            }
            s
        }
        "dump" => {
            let d = c.dump();
            let mut s = format!(
                "ptr {} srv {} txt {} addr {} nsec {} sub {}",
                table_toks(&d.ptr),
                table_toks(&d.srv),
                table_toks(&d.txt),
                table_toks(&d.addr),
                table_toks(&d.nsec),
                d.subtype.len()
            );
            for (k, v) in &d.subtype {
                s.push_str(&format!(" {} {}", hex(k.as_bytes()), hex(v.as_bytes())));
            }
            s
        }
        _ => return None,
    })
}

fn exec_cache_seq(t: &mut Toks) -> Option<String> {
    let n = t.nat()? as usize;
    let mut c = CacheHandle::new();
    let mut out = Vec::with_capacity(n);
    for _ in 0..n {
        match guarded(AssertUnwindSafe(|| exec_cache_cmd(&mut c, t))) {
            None => {
                out.push("panic".to_string());
                break;
            }
            Some(None) => return None,
            Some(Some(s)) => out.push(s),
        }
    }
    Some(out.join(" ; "))
}

pub fn exec(op: &str, t: &mut Toks) -> Option<String> {
    let r = match op {
        "rec-life" => exec_life(t),
        "suppress" => exec_suppress(t),
        "suppress-msg" => exec_suppress_msg(t),
        "cache-seq" => exec_cache_seq(t),
        _ => None,
    };
    clock::set(None);
    r
}

// -------------------------------------------------------------------------- generators

/// every TTL 1..600, then 0, 2^k, 2^k +- 1, values the crate uses, u32::MAX
fn ttl_list() -> Vec<u32> {
    let mut v: Vec<u32> = (1..=600).collect();
    v.push(0);
    for k in 1..32u32 {
        let p = 1u32 << k;
        v.extend([p - 1, p, p.wrapping_add(1)]);
    }
    v.extend([4500, 120, 3600, 75 * 60, 1000, 999, 1001, u32::MAX - 1, u32::MAX]);
    v.sort();
    v.dedup();
    v
}

fn mark(created: u64, ttl: u32, pct: u64) -> u64 {
    created + ttl as u64 * pct * 10
}

fn pick_created(r: &mut Rng) -> u64 {
    match r.below(8) {
        0 => 0,
        1 => 1,
        2 => 1000,
        3 => (1u64 << 62) - 1,
        4 => r.range(0, 5000),
        _ => 1_700_000_000_000 + r.below(1_000_000_000),
    }
}

const OBS_KINDS: &[&str] = &["exp", "soon", "due", "half"];

struct Life {
    steps: Vec<String>,
}
impl Life {
    fn new() -> Self {
        Life { steps: vec![] }
    }
    fn at(&mut self, kind: &str, t: u64) {
        self.steps.push(format!("{} {}", kind, t));
    }
    fn raw(&mut self, s: String) {
        self.steps.push(s);
    }
    fn line(&self, created: u64, ttl: u32) -> String {
        format!("rec-life {} {} {} {}", created, ttl, self.steps.len(), self.steps.join(" "))
    }
}

fn around(r: &mut Rng, t: u64) -> u64 {
    match r.below(5) {
        0 => t.saturating_sub(1),
        1 => t + 1,
        _ => t,
    }
}

/// refresh observations at every mark -1 / 0 / +1 ms, other observations interleaved
fn life_aligned(r: &mut Rng, created: u64, ttl: u32, l: &mut Life) {
    for pct in [50u64, 80, 85, 90, 95, 100] {
        let m = mark(created, ttl, pct);
        for d in [-1i64, 0, 1] {
            let t = (m as i64 + d).max(0) as u64;
            if r.chance(1, 3) {
                l.at(*r.pick(OBS_KINDS), t);
            }
            if pct == 50 {
                l.at("half", t);
            } else if r.chance(5, 6) {
                l.at(if r.chance(1, 8) { "upd" } else { "refresh" }, t);
            }
            if pct == 100 {
                l.at("exp", t);
                l.at("soon", t.saturating_sub(1000));
            }
        }
    }
}

/// observations that jump over several marks, a few per record, then past expiry
fn life_jumps(r: &mut Rng, created: u64, ttl: u32, l: &mut Life) {
    let mut pcts: Vec<u64> = vec![];
    for p in [80u64, 85, 90, 95] {
        if r.chance(1, 2) {
            pcts.push(p);
        }
    }
    if pcts.is_empty() {
        pcts.push(*r.pick(&[90u64, 95]));
    }
    for p in pcts {
        let reps = 1 + r.below(3);
        for _ in 0..reps {
            let t = around(r, mark(created, ttl, p)) + r.below(2) * r.below(ttl as u64 * 10 + 1);
            l.at("refresh", t);
        }
    }
    // several observations at one instant late in life: one refresh per remaining mark
    let late = mark(created, ttl, 99).max(mark(created, ttl, 95) + 1).min(mark(created, ttl, 100).saturating_sub(1));
    for _ in 0..r.range(0, 5) {
        l.at("refresh", late);
    }
    for d in [0u64, 1, 1000] {
        l.at("refresh", mark(created, ttl, 100) + d);
    }
    l.raw("view".into());
}

fn life_random(r: &mut Rng, created: u64, ttl: u32, l: &mut Life, monotone: bool) {
    let span = ttl as u64 * 1000 + 2000;
    let mut t = created.saturating_sub(r.below(3));
    for _ in 0..r.range(6, 16) {
        if monotone {
            t += r.below(span / 6 + 2);
        } else {
            t = created.saturating_sub(2) + r.below(span + 4);
        }
        let k = match r.below(10) {
            0..=4 => "refresh",
            5 => "upd",
            _ => *r.pick(OBS_KINDS),
        };
        l.at(k, t);
    }
}

/// part of a schedule, then a fresh copy of the record arrives, then the new schedule
fn life_reset(r: &mut Rng, created: u64, ttl: u32, l: &mut Life) {
    for p in [80u64, 85, 90] {
        if r.chance(2, 3) {
            l.at("refresh", around(r, mark(created, ttl, p)));
        }
    }
    let c2 = mark(created, ttl, *r.pick(&[10u64, 82, 91, 99, 100, 120]));
    let ttl2 = match r.below(8) {
        0 => 0,
        1 => 1,
        2 => 2,
        3 | 4 => ttl,
        5 => ttl / 2,
        _ => r.range(1, 5000) as u32,
    };
    l.raw(format!("reset {} {}", c2, ttl2));
    life_aligned(r, c2, ttl2, l);
    l.raw("view".into());
}

/// mutators and the TTL arithmetic that can underflow
fn life_mutators(r: &mut Rng, created: u64, ttl: u32, l: &mut Life) {
    let e = mark(created, ttl, 100);
    for t in [created.saturating_sub(1), created, created + 1, created + 999, created + 1000, created + 1001] {
        l.at("remttl", t);
    }
    for t in [e.saturating_sub(1001), e.saturating_sub(1000), e.saturating_sub(999), e.saturating_sub(1), e, e + 1] {
        l.at("remttl", t);
    }
    if r.chance(1, 4) {
        l.at("remttl", 0);
    }
    match r.below(4) {
        0 => {
            // shorten the life, then look at expiry and refresh around the new end
            let x = mark(created, ttl, *r.pick(&[70u64, 83, 97]));
            l.at("sooner", x);
            l.at("sooner", x + 5); // later than the current one: no effect
            for t in [x.saturating_sub(1), x, x + 1] {
                l.at("exp", t);
                l.at("refresh", t);
            }
            l.at("soon", x.saturating_sub(1001));
            l.at("soon", x.saturating_sub(1000));
        }
        1 => {
            l.at("setexp", e + 1000);
            for t in [e.saturating_sub(1), e, e + 999, e + 1000] {
                l.at("exp", t);
                l.at("refresh", t);
            }
        }
        2 => {
            if r.chance(1, 2) {
                l.at("refresh", mark(created, ttl, 80));
            }
            l.raw("nomore".into());
            for p in [80u64, 85, 90, 95, 100] {
                l.at("refresh", mark(created, ttl, p));
            }
        }
        _ => {}
    }
    // update_ttl: elapsed whole seconds are subtracted; more than the TTL underflows
    let at = match r.below(7) {
        0 => created,
        1 => created + 999,
        2 => created + 1000,
        3 => mark(created, ttl, 50),
        4 => e + 999,
        5 => e + 1000,
        _ => e,
    };
    l.at("updttl", at);
    l.raw("view".into());
    l.at("updttl", created + r.below(3) * 1000);
    l.at("half", mark(created, ttl, 50));
    l.at("exp", e);
}

fn gen_life(r: &mut Rng, thorough: bool, emit: &mut dyn FnMut(String)) {
    let rounds = if thorough { 12 } else { 3 };
    for round in 0..rounds {
        for (i, ttl) in ttl_list().into_iter().enumerate() {
            for kind in 0..4 {
                let created = if kind == 0 && round == 0 { 1_700_000_000_000 } else { pick_created(r) };
                let mut l = Life::new();
                match kind {
                    0 => life_aligned(r, created, ttl, &mut l),
                    1 => life_jumps(r, created, ttl, &mut l),
                    2 => life_random(r, created, ttl, &mut l, true),
                    _ => match (i + round) % 3 {
                        0 => life_reset(r, created, ttl, &mut l),
                        1 => life_mutators(r, created, ttl, &mut l),
                        _ => life_random(r, created, ttl, &mut l, false),
                    },
                }
                emit(l.line(created, ttl));
            }
        }
    }
}

// --- cache scenarios

const TYPES: &[&str] = &["_a._tcp.local.", "_b._udp.local.", "_s._sub._a._tcp.local.", "_A._tcp.local."];
const HOSTS: &[&str] = &["h1.local.", "h2.local.", "host-three.local."];
const IFS: &[(&str, u32)] = &[("eth0", 2), ("wlan0", 3), ("eth1", 4)];

fn instance(r: &mut Rng, ty_idx: usize) -> String {
    // instances are not shared between type domains (the order in which expired SRVs are
    // attributed to type domains follows hash order otherwise)
    format!("{}{}.{}", r.pick(&["i", "j", "I"]), ty_idx, TYPES[ty_idx])
}

fn addr_name(r: &mut Rng, host: &str) -> String {
    // address records are keyed by the lower-cased name
    if r.chance(1, 4) {
        host.to_uppercase().replace(".LOCAL.", ".local.")
    } else {
        host.to_string()
    }
}

fn gen_ip(r: &mut Rng, v6: bool) -> IpAddr {
    if v6 {
        IpAddr::V6(Ipv6Addr::new(0xfe80, 0, 0, 0, 0, 0, 0, 1 + r.below(3) as u16))
    } else {
        IpAddr::V4(Ipv4Addr::new(192, 168, 1, 1 + r.below(3) as u8))
    }
}

fn class_of(r: &mut Rng, flush: bool) -> u16 {
    let c = if r.chance(1, 12) { 3 } else { 1 };
    c | if flush { 0x8000 } else { 0 }
}

struct Scn<'a> {
    r: &'a mut Rng,
    now: u64,
    cmds: Vec<String>,
    /// share of records that carry the cache-flush bit where a kind usually has it
    flush_bias: u64,
}

impl<'a> Scn<'a> {
    fn new(r: &'a mut Rng) -> Self {
        let now = match r.below(4) {
            0 => 5000,
            1 => 1_000_000,
            _ => 1_700_000_000_000 + r.below(1_000_000),
        };
        Scn { r, now, cmds: vec![], flush_bias: 3 }
    }
    fn line(&self) -> String {
        format!("cache-seq {} {}", self.cmds.len(), self.cmds.join(" "))
    }
    fn dump(&mut self) {
        self.cmds.push("dump".into());
    }
    fn add(&mut self, d: &RecDesc, for_us: bool) {
        let (ifn, ifi) = *self.r.pick(IFS);
        self.add_on(d, for_us, ifn, ifi);
    }
    fn add_on(&mut self, d: &RecDesc, for_us: bool, ifn: &str, ifi: u32) {
        // the record is usually built in the same iteration it is added in
        let created = if self.r.chance(1, 10) { self.now.saturating_sub(self.r.below(3)) } else { self.now };
        let mut d = d.clone();
        if let RDataView::Addr { if_name, if_index, .. } = &mut d.rdata {
            // an address record carries the interface it was decoded on
            if !self.r.chance(1, 10) {
                *if_name = ifn.to_string();
                *if_index = ifi;
            }
        }
        self.cmds.push(format!("add {} {} {} {} {} {}", created, self.now, hex(ifn.as_bytes()), ifi, b(for_us), desc_toks(&d)));
    }
    fn wait(&mut self, ms: u64) {
        self.now += ms;
    }
    fn small_ttl(&mut self) -> u32 {
        *self.r.pick(&[1u32, 2, 2, 3, 5, 10, 120, 4500])
    }
    fn ptr(&mut self, ty_idx: usize, ttl: u32) -> RecDesc {
        let flush = self.r.chance(1, 10);
        RecDesc {
            name: TYPES[ty_idx].into(),
            ty: 12,
            class: class_of(self.r, flush),
            ttl,
            rdata: RDataView::Ptr(instance(self.r, ty_idx)),
        }
    }
    fn srv(&mut self, inst: &str, ttl: u32) -> RecDesc {
        let flush = self.r.chance(self.flush_bias, 4);
        RecDesc {
            name: inst.into(),
            ty: 33,
            class: class_of(self.r, flush),
            ttl,
            rdata: RDataView::Srv {
                priority: 0,
                weight: 0,
                port: 80 + self.r.below(2) as u16,
                host: self.r.pick(HOSTS).to_string(),
            },
        }
    }
    fn txt(&mut self, inst: &str, ttl: u32) -> RecDesc {
        let flush = self.r.chance(self.flush_bias, 4);
        RecDesc {
            name: inst.into(),
            ty: 16,
            class: class_of(self.r, flush),
            ttl,
            rdata: RDataView::Txt(self.r.pick(&[&b"\x03a=1"[..], &b"\x03a=2"[..], &b"\x00"[..]]).to_vec()),
        }
    }
    fn addr(&mut self, host: &str, ttl: u32) -> RecDesc {
        let v6 = self.r.chance(1, 3);
        let flush = self.r.chance(self.flush_bias, 4);
        let (ifn, ifi) = *self.r.pick(IFS);
        RecDesc {
            name: addr_name(self.r, host),
            ty: if v6 { 28 } else { 1 },
            class: class_of(self.r, flush),
            ttl,
            rdata: RDataView::Addr { ip: gen_ip(self.r, v6), if_name: ifn.into(), if_index: ifi },
        }
    }
    fn nsec(&mut self, name: &str, ttl: u32) -> RecDesc {
        RecDesc {
            name: name.into(),
            ty: 47,
            class: class_of(self.r, true),
            ttl,
            rdata: RDataView::Nsec { next: name.into(), bitmap: vec![0, 4, 0, 0, 0, 8] },
        }
    }
    fn any_record(&mut self, ttl: u32) -> RecDesc {
        let ty_idx = self.r.below(TYPES.len() as u64) as usize;
        let inst = instance(self.r, ty_idx);
        match self.r.below(12) {
            0..=2 => self.ptr(ty_idx, ttl),
            3 | 4 => self.srv(&inst, ttl),
            5 | 6 => self.txt(&inst, ttl),
            7..=9 => {
                let h = *self.r.pick(HOSTS);
                self.addr(h, ttl)
            }
            10 => self.nsec(&inst, ttl),
            _ => RecDesc {
                // a type the cache does not keep
                name: inst,
                ty: 13,
                class: 1,
                ttl,
                rdata: RDataView::Hinfo { cpu: "c".into(), os: "o".into() },
            },
        }
    }
    /// a step of time that lands on the constants of the cache-flush rule and of the
    /// lifetime of a record of `ttl` seconds
    fn step(&mut self, ttl: u32) -> u64 {
        let t = ttl as u64;
        *self.r.pick(&[0, 1, 500, 998, 999, 1000, 1001, 1002, 2000, t * 500, t * 800, t * 1000 - 1, t * 1000, t * 1000 + 1])
    }
    fn observe(&mut self) {
        let ty_idx = self.r.below(TYPES.len() as u64) as usize;
        let ty = hex(TYPES[ty_idx].as_bytes());
        let now = self.now;
        let c = match self.r.below(12) {
            0 | 1 => format!("evicta {}", now),
            2 | 3 => format!("evicts {}", now),
            4 => format!("refptr {} {}", ty, now),
            5 => format!("refst {} {}", ty, now),
            6 => format!("refhosts {} {}", ty, now),
            7 => format!("refres {} {}", hex(self.r.pick(HOSTS).as_bytes()), now),
            8 | 9 => self.known_cmd(),
            10 => {
                let inst = instance(self.r, ty_idx);
                let at = if self.r.chance(1, 2) { "none".to_string() } else { format!("some {}", now + *self.r.pick(&[0u64, 1000, 3000, 10_000_000])) };
                format!("verify {} {}", hex(inst.as_bytes()), at)
            }
            _ => format!("rmtype {}", ty),
        };
        self.cmds.push(c);
    }
    fn known_cmd(&mut self) -> String {
        let ty_idx = self.r.below(TYPES.len() as u64) as usize;
        let (name, ty) = match self.r.below(8) {
            0..=2 => (TYPES[ty_idx].to_string(), 12),
            3 => (instance(self.r, ty_idx), 33),
            4 => (instance(self.r, ty_idx), 16),
            5 => {
                let h = *self.r.pick(HOSTS);
                (addr_name(self.r, h), 1)
            }
            6 => {
                let h = *self.r.pick(HOSTS);
                (addr_name(self.r, h), 28)
            }
            _ => (TYPES[ty_idx].to_string(), *self.r.pick(&[255u16, 47, 13, 5, 2])),
        };
        format!("known {} {} {}", hex(name.as_bytes()), ty, self.now)
    }
}

/// the cache-flush rule: older records of one name, then a flush-bit record at ages around one second
fn scn_flush(r: &mut Rng) -> String {
    let mut s = Scn::new(r);
    let kind = s.r.below(3);
    let ty_idx = s.r.below(2) as usize;
    let inst = instance(s.r, ty_idx);
    let host = *s.r.pick(HOSTS);
    let mk = |s: &mut Scn, ttl: u32| -> RecDesc {
        match kind {
            0 => s.addr(host, ttl),
            1 => s.srv(&inst, ttl),
            _ => s.txt(&inst, ttl),
        }
    };
    let n_old = s.r.range(1, 4);
    for _ in 0..n_old {
        let ttl = *s.r.pick(&[1u32, 2, 3, 120, 4500]);
        let d = mk(&mut s, ttl);
        s.add(&d, true);
        let w = *s.r.pick(&[0u64, 0, 1, 2, 998, 999, 1000]);
        s.wait(w);
    }
    let w = *s.r.pick(&[0u64, 1, 997, 998, 999, 1000, 1001, 1002, 1003, 1999, 2000, 2001]);
    s.wait(w);
    s.dump();
    let ttl = *s.r.pick(&[1u32, 120, 4500]);
    let mut d = mk(&mut s, ttl);
    d.class |= 0x8000;
    if s.r.chance(1, 6) {
        d.class &= 0x7fff; // the same arrival without the bit flushes nothing
    }
    s.add(&d, true);
    s.dump();
    // same burst: a second record of the set right after the first
    if s.r.chance(1, 2) {
        let w = *s.r.pick(&[0u64, 1, 999, 1000, 1001]);
        s.wait(w);
        let mut d2 = mk(&mut s, 120);
        d2.class |= 0x8000;
        s.add(&d2, true);
        s.dump();
    }
    for w in [998u64, 1, 1, 1] {
        s.wait(w);
        if s.r.chance(1, 2) {
            let now = s.now;
            s.cmds.push(if kind == 0 { format!("evicta {}", now) } else { format!("evicts {}", now) });
            s.dump();
        }
    }
    s.line()
}

/// records of small TTLs, eviction at expiry -1 / 0 / +1
fn scn_evict(r: &mut Rng) -> String {
    let mut s = Scn::new(r);
    let ttl = *s.r.pick(&[1u32, 2, 5, 120]);
    let ty_idx = s.r.below(TYPES.len() as u64) as usize;
    let t0 = s.now;
    for _ in 0..s.r.range(2, 7) {
        let inst = instance(s.r, ty_idx);
        let d = match s.r.below(6) {
            0 | 1 => s.ptr(ty_idx, ttl),
            2 => s.srv(&inst, ttl),
            3 => s.txt(&inst, ttl),
            _ => {
                let h = *s.r.pick(HOSTS);
                s.addr(h, ttl)
            }
        };
        let for_us = !s.r.chance(1, 8);
        s.add(&d, for_us);
        if s.r.chance(1, 3) {
            let w = *s.r.pick(&[1u64, 500, 1000]);
            s.wait(w);
        }
    }
    s.now = t0 + ttl as u64 * 1000 - 2;
    for _ in 0..4 {
        s.wait(1);
        s.dump();
        let now = s.now;
        if s.r.chance(1, 2) {
            s.cmds.push(format!("evicta {}", now));
            s.dump();
            s.cmds.push(format!("evicts {}", now));
        } else {
            s.cmds.push(format!("evicts {}", now));
            s.dump();
            s.cmds.push(format!("evicta {}", now));
        }
        s.dump();
    }
    s.wait(1500);
    let now = s.now;
    s.cmds.push(format!("evicts {}", now));
    s.cmds.push(format!("evicta {}", now));
    s.dump();
    s.line()
}

/// a browsed service: PTR, SRV, TXT, addresses; refresh look-ups at the marks
fn scn_refresh(r: &mut Rng) -> String {
    let mut s = Scn::new(r);
    let ttl = *s.r.pick(&[2u32, 10, 100, 120, 4500]);
    let ty_idx = s.r.below(2) as usize;
    let ty = hex(TYPES[ty_idx].as_bytes());
    let t0 = s.now;
    let ptr = s.ptr(ty_idx, ttl);
    let inst = match &ptr.rdata {
        RDataView::Ptr(a) => a.clone(),
        _ => unreachable!(),
    };
    s.add(&ptr, true);
    let srv = s.srv(&inst, ttl);
    let host = match &srv.rdata {
        RDataView::Srv { host, .. } => host.clone(),
        _ => unreachable!(),
    };
    s.add(&srv, true);
    let txt = s.txt(&inst, ttl);
    s.add(&txt, true);
    for _ in 0..s.r.range(1, 3) {
        let a = s.addr(&host, ttl);
        s.add(&a, true);
    }
    if s.r.chance(1, 3) {
        let p2 = s.ptr(ty_idx, ttl);
        s.add(&p2, true);
    }
    let mut pcts: Vec<u64> = vec![79, 80, 85, 90, 95, 100];
    if s.r.chance(1, 3) {
        pcts = vec![*s.r.pick(&[86u64, 91, 96])]; // first look after several marks
        pcts.push(99);
        pcts.push(100);
    }
    for p in pcts {
        let m = mark(t0, ttl, p);
        for d in [-1i64, 0, 1] {
            if s.r.chance(1, 3) {
                continue;
            }
            s.now = (m as i64 + d) as u64;
            let now = s.now;
            for k in 0..4 {
                if s.r.chance(2, 3) {
                    s.cmds.push(match k {
                        0 => format!("refptr {} {}", ty, now),
                        1 => format!("refst {} {}", ty, now),
                        2 => format!("refhosts {} {}", ty, now),
                        _ => format!("refres {} {}", hex(host.as_bytes()), now),
                    });
                }
            }
            if s.r.chance(1, 3) {
                let c = s.known_cmd();
                s.cmds.push(c);
            }
        }
        // a fresh copy restarts the schedule
        if s.r.chance(1, 6) {
            let d = match s.r.below(3) {
                0 => ptr.clone(),
                1 => srv.clone(),
                _ => txt.clone(),
            };
            s.add(&d, true);
            s.dump();
        }
    }
    s.dump();
    s.line()
}

fn scn_random(r: &mut Rng) -> String {
    let mut s = Scn::new(r);
    s.flush_bias = s.r.range(0, 4);
    let n = s.r.range(3, 14);
    for _ in 0..n {
        let ttl = s.small_ttl();
        if s.r.chance(3, 5) {
            let d = s.any_record(ttl);
            let for_us = !s.r.chance(1, 6);
            s.add(&d, for_us);
        } else {
            s.observe();
        }
        if s.r.chance(1, 4) {
            s.dump();
        }
        let w = s.step(ttl);
        s.wait(w);
    }
    s.dump();
    s.line()
}

/// known answers at ages 0..100 % of the lifetime, +-1 ms around the half
fn scn_known(r: &mut Rng) -> String {
    let mut s = Scn::new(r);
    s.flush_bias = 1;
    let ttl = *s.r.pick(&[1u32, 2, 3, 7, 120, 121, 4500, 4501, 10, 255]);
    let ty_idx = s.r.below(TYPES.len() as u64) as usize;
    let t0 = s.now;
    let mut names: Vec<(String, u16)> = vec![];
    for _ in 0..s.r.range(1, 5) {
        let inst = instance(s.r, ty_idx);
        let d = match s.r.below(8) {
            0..=3 => s.ptr(ty_idx, ttl),
            4 => s.srv(&inst, ttl),
            5 => s.txt(&inst, ttl),
            _ => {
                let h = *s.r.pick(HOSTS);
                s.addr(h, ttl)
            }
        };
        names.push((d.name.clone(), d.ty));
        s.add(&d, true);
        if s.r.chance(1, 4) {
            let w = *s.r.pick(&[1u64, 999, 1000]);
            s.wait(w);
        }
    }
    s.dump();
    let half = mark(t0, ttl, 50);
    let mut times = vec![t0, t0 + 1, t0 + 999, t0 + 1000, half - 1, half, half + 1, half + 999, half + 1000, half + 1001];
    times.push(mark(t0, ttl, 100) - 1);
    times.push(mark(t0, ttl, 100));
    times.push(mark(t0, ttl, 100) + 1000);
    times.push(t0 + s.r.below(ttl as u64 * 1000 + 1));
    times.sort();
    for t in times {
        if s.r.chance(1, 3) {
            continue;
        }
        s.now = t;
        let (n, ty) = s.r.pick(&names).clone();
        let n = if ty == 1 || ty == 28 { if s.r.chance(1, 3) { n.to_uppercase() } else { n } } else { n };
        s.cmds.push(format!("known {} {} {}", hex(n.as_bytes()), ty, t));
    }
    // verification of an instance brings the end of its SRV and address records forward
    if s.r.chance(1, 6) {
        s.now = t0 + 1500;
        let inst = instance(s.r, ty_idx);
        let srv = s.srv(&inst, ttl);
        let host = match &srv.rdata {
            RDataView::Srv { host, .. } => host.clone(),
            _ => unreachable!(),
        };
        s.add(&srv, true);
        let a = s.addr(&host, ttl);
        s.add(&a, true);
        let now = s.now;
        s.cmds.push(format!("verify {} some {}", hex(inst.as_bytes()), now + *s.r.pick(&[0u64, 1000, 3000, 600_000])));
        s.dump();
        s.cmds.push(format!("known {} {} {}", hex(host.as_bytes()), a.ty, now));
        s.cmds.push(format!("known {} 33 {}", hex(inst.as_bytes()), now));
    }
    // a record whose end was brought forward is still listed with the TTL computed from its creation
    if s.r.chance(1, 4) {
        s.now = t0 + 1500;
        let (n, ty) = names[0].clone();
        if ty == 12 {
            let mut d = s.ptr(ty_idx, ttl);
            d.class |= 0x8000;
            s.add(&d, true);
            s.dump();
            s.cmds.push(format!("known {} {} {}", hex(n.as_bytes()), ty, s.now));
        }
    }
    s.line()
}

pub fn generate_c11(r: &mut Rng, tier: &str, emit: &mut dyn FnMut(String)) {
    let thorough = tier == "thorough";
    gen_life(r, thorough, emit);
    let n = if thorough { 40_000 } else { 6000 };
    for i in 0..n {
        emit(match i % 8 {
            0 | 1 | 2 => scn_flush(r),
            3 | 4 => scn_evict(r),
            5 => scn_refresh(r),
            _ => scn_random(r),
        });
    }
}

// --- known-answer suppression (responder side)

fn base_records(r: &mut Rng, ttl: u32) -> RecDesc {
    let (ifn, ifi) = IFS[0];
    match r.below(7) {
        0 | 1 => RecDesc { name: TYPES[0].into(), ty: 12, class: 1, ttl, rdata: RDataView::Ptr("i0._a._tcp.local.".into()) },
        2 => RecDesc {
            name: "i0._a._tcp.local.".into(),
            ty: 33,
            class: 0x8001,
            ttl,
            rdata: RDataView::Srv { priority: 0, weight: 0, port: 80, host: HOSTS[0].into() },
        },
        3 => RecDesc { name: "i0._a._tcp.local.".into(), ty: 16, class: 0x8001, ttl, rdata: RDataView::Txt(b"\x03a=1".to_vec()) },
        4 => RecDesc {
            name: HOSTS[0].into(),
            ty: 1,
            class: 0x8001,
            ttl,
            rdata: RDataView::Addr { ip: gen_ip(r, false), if_name: ifn.into(), if_index: ifi },
        },
        5 => RecDesc {
            name: HOSTS[0].into(),
            ty: 28,
            class: 0x8001,
            ttl,
            rdata: RDataView::Addr { ip: gen_ip(r, true), if_name: ifn.into(), if_index: ifi },
        },
        _ => RecDesc {
            name: "i0._a._tcp.local.".into(),
            ty: 47,
            class: 0x8001,
            ttl,
            rdata: RDataView::Nsec { next: "i0._a._tcp.local.".into(), bitmap: vec![0, 4, 0, 0, 0, 8] },
        },
    }
}

fn known_ttls(mine: u32) -> Vec<u32> {
    let h = mine / 2;
    let mut v = vec![0, 1, h.saturating_sub(1), h, h.saturating_add(1), mine, u32::MAX, mine.saturating_sub(1), mine.saturating_add(1)];
    if mine % 2 == 1 {
        v.push(h + 1);
    }
    v.sort();
    v.dedup();
    v
}

/// one field of the record changed
fn vary(r: &mut Rng, d: &RecDesc) -> RecDesc {
    let mut o = d.clone();
    match r.below(9) {
        0 => o.class ^= 0x8000,
        1 => o.name = o.name.to_uppercase(),
        2 => o.name = format!("x{}", o.name),
        3 => o.class = (o.class & 0x8000) | 3,
        4 => match &mut o.rdata {
            RDataView::Addr { if_index, .. } => *if_index += 1,
            RDataView::Ptr(a) => *a = a.to_uppercase(),
            RDataView::Srv { port, .. } => *port += 1,
            RDataView::Txt(t) => t.push(0),
            RDataView::Hinfo { os, .. } => os.push('x'),
            RDataView::Nsec { bitmap, .. } => bitmap.push(0),
        },
        5 => match &mut o.rdata {
            RDataView::Addr { if_name, .. } => if_name.push('x'),
            RDataView::Ptr(a) => a.insert(0, 'x'),
            RDataView::Srv { host, .. } => *host = host.to_uppercase(),
            RDataView::Txt(t) => *t = b"\x03a=2".to_vec(),
            RDataView::Hinfo { cpu, .. } => cpu.push('x'),
            RDataView::Nsec { next, .. } => next.push('x'),
        },
        6 => match &mut o.rdata {
            RDataView::Addr { ip, .. } => {
                *ip = match ip {
                    IpAddr::V4(_) => IpAddr::V4(Ipv4Addr::new(10, 0, 0, 9)),
                    IpAddr::V6(_) => IpAddr::V6(Ipv6Addr::new(0xfe80, 0, 0, 0, 0, 0, 0, 9)),
                }
            }
            RDataView::Srv { priority, weight, .. } => {
                *priority += 1;
                *weight += r.below(2) as u16;
            }
            _ => o.class ^= 0x8000,
        },
        7 => {
            // another kind of record under the same name
            o = base_records(r, d.ttl);
            o.name = d.name.clone();
        }
        _ => {
            if o.ty == 12 {
                o.ty = 5; // CNAME shares the representation of PTR
            } else if o.ty == 1 {
                o.ty = 28;
            } else {
                o.class ^= 0x8000;
            }
        }
    }
    o
}

fn gen_suppress(r: &mut Rng, emit: &mut dyn FnMut(String), n: usize) {
    let mine_ttls: Vec<u32> = vec![120, 4500, 0, 1, 2, 3, 7, 255, 121, 4501, 60, 10, u32::MAX, u32::MAX - 1];
    for i in 0..n {
        let mt = if i % 3 == 0 { *r.pick(&mine_ttls) } else { *r.pick(&[120u32, 4500, 121, 7]) };
        let mine = base_records(r, mt);
        for ot in known_ttls(mt) {
            let mut other = mine.clone();
            other.ttl = ot;
            match r.below(4) {
                0 => {}
                // what a compliant querier sends: the same record, cache-flush bit clear
                1 => other.class &= 0x7fff,
                _ => other = { let mut v = vary(r, &mine); v.ttl = ot; v },
            }
            emit(format!("suppress {} {}", desc_toks(&mine), desc_toks(&other)));
        }
    }
}

fn gen_suppress_msg(r: &mut Rng, emit: &mut dyn FnMut(String), n: usize) {
    for _ in 0..n {
        let mt = *r.pick(&[120u32, 4500, 7, 2]);
        let mine = base_records(r, mt);
        let mut d = MsgDesc { flags: 0, id: 0, ..Default::default() };
        d.questions.push((mine.name.clone(), mine.ty));
        let k = r.below(5);
        let hit = r.below(k + 1);
        for j in 0..k {
            let mut o = if j == hit && r.chance(2, 3) { mine.clone() } else { vary(r, &mine) };
            o.ttl = *r.pick(&known_ttls(mt));
            if r.chance(1, 2) {
                o.class &= 0x7fff;
            }
            d.answers.push((o, 0));
        }
        let (ifn, ifi) = if r.chance(3, 4) { IFS[0] } else { IFS[1] };
        if let Some(p) = parser::encode(&d).and_then(|v| v.into_iter().next()) {
            emit(format!("suppress-msg {} {} {} {}", desc_toks(&mine), hex(ifn.as_bytes()), ifi, hex(&p)));
        }
    }
}

pub fn generate_c10(r: &mut Rng, tier: &str, emit: &mut dyn FnMut(String)) {
    let thorough = tier == "thorough";
    gen_suppress(r, emit, if thorough { 12_000 } else { 1200 });
    gen_suppress_msg(r, emit, if thorough { 10_000 } else { 1000 });
    let n = if thorough { 30_000 } else { 3000 };
    for i in 0..n {
        emit(match i % 4 {
            0 | 1 | 2 => scn_known(r),
            _ => scn_random(r),
        });
    }
}
